"""Deterministic step counters on top of sys.monitoring (PEP 669).

* StepBudget  -- counts PY_START and backward JUMP events inside code objects of the repo's
  `hexital/` package while a library operation runs and raises StepBudgetExceeded inside the
  library call when a budget is exceeded: a deterministic, replayable stand-in for "hangs".
* LineMeter   -- counts LINE events per file group (used by C07 as the work measure).

Both are simulation clocks: they do not read wall time and are independent of machine load.
"""
from __future__ import annotations

import os
import sys

mon = sys.monitoring
E = mon.events

TOOL_BUDGET = 3  # free tool ids: 3, 4
TOOL_LINES = 4


class StepBudgetExceeded(Exception):
    """Raised inside a library call that executed more interpreter steps than its budget."""


def _hexital_root() -> str:
    import hexital

    return os.path.dirname(os.path.abspath(hexital.__file__)) + os.sep


class StepBudget:
    def __init__(self):
        self.root = _hexital_root()
        self.count = 0
        self.limit = 0
        self.active = False
        self.installed = False
        self._is_hex = {}

    def install(self):
        if self.installed:
            return
        mon.use_tool_id(TOOL_BUDGET, "hexsim-budget")
        mon.register_callback(TOOL_BUDGET, E.PY_START, self._on_start)
        mon.register_callback(TOOL_BUDGET, E.JUMP, self._on_jump)
        # enabled once and left on: toggling global events per operation forces re-instrumentation
        # of every code object; counting is gated by self.active instead.
        mon.set_events(TOOL_BUDGET, E.PY_START | E.JUMP)
        self.installed = True

    def uninstall(self):
        if not self.installed:
            return
        mon.set_events(TOOL_BUDGET, 0)
        mon.free_tool_id(TOOL_BUDGET)
        self.installed = False

    def _hex(self, code) -> bool:
        r = self._is_hex.get(code)
        if r is None:
            r = code.co_filename.startswith(self.root)
            self._is_hex[code] = r
        return r

    def _on_start(self, code, offset):
        if not self._hex(code):
            return mon.DISABLE
        if self.active:
            self.count += 1
            if self.count > self.limit:
                self.active = False
                raise StepBudgetExceeded(f"more than {self.limit} steps in one operation")

    def _on_jump(self, code, src, dst):
        if not self._hex(code):
            return mon.DISABLE
        if dst < src and self.active:
            self.count += 1
            if self.count > self.limit:
                self.active = False
                raise StepBudgetExceeded(f"more than {self.limit} steps in one operation")

    def run(self, limit: int, fn, *args, **kwargs):
        """Run fn under a fresh budget; returns fn's result; StepBudgetExceeded propagates."""
        self.install()
        self.count = 0
        self.limit = limit
        self.active = True
        try:
            return fn(*args, **kwargs)
        finally:
            self.active = False


_BUDGET = None


def budget() -> StepBudget:
    global _BUDGET
    if _BUDGET is None:
        _BUDGET = StepBudget()
    return _BUDGET


def guarded(limit: int, fn, *args, **kwargs):
    return budget().run(limit, fn, *args, **kwargs)


def op_limit(n_candles: int) -> int:
    """Generous per-operation step budget as a function of how many candles are involved.

    Normal operations use 10..300 steps per candle; the budget allows 4000 per candle plus a
    constant, so that only a runaway loop can hit it.
    """
    return 200_000 + 4_000 * max(0, n_candles)


class LineMeter:
    """Counts interpreter control-flow events in selected hexital files while enabled (C07's work
    measure): PY_START (function entries), JUMP and BRANCH (loop iterations, conditionals).

    LINE events were the first choice but turned out NOT to be bit-stable between the first and later
    executions of the same code in one process (CPython emits a varying number of LINE events for a
    line that contains a conditional expression, depending on specialisation state); calls, jumps
    and branches are determined by the executed path alone."""

    def __init__(self, include_suffixes):
        self.root = _hexital_root()
        self.include = tuple(include_suffixes)
        self.count = 0
        self.calls = 0
        self.installed = False
        self._want = {}

    def _wanted(self, code) -> bool:
        r = self._want.get(code)
        if r is None:
            fn = code.co_filename
            r = False
            if fn.startswith(self.root):
                rel = fn[len(self.root):].replace(os.sep, "/")
                r = any(rel == s or (s.endswith("/") and rel.startswith(s)) for s in self.include)
            self._want[code] = r
        return r

    def set_include(self, include_suffixes):
        """Switch the set of measured files (between runs); locations disabled for the old set are re-armed."""
        inc = tuple(include_suffixes)
        if inc != self.include:
            self.include = inc
            self._want = {}
            mon.restart_events()

    def install(self):
        if self.installed:
            return
        mon.use_tool_id(TOOL_LINES, "hexsim-work")
        mon.register_callback(TOOL_LINES, E.JUMP, self._on_flow)
        mon.register_callback(TOOL_LINES, E.BRANCH, self._on_flow)
        mon.register_callback(TOOL_LINES, E.PY_START, self._on_start)
        self.installed = True

    def uninstall(self):
        if not self.installed:
            return
        mon.set_events(TOOL_LINES, 0)
        mon.free_tool_id(TOOL_LINES)
        self.installed = False

    def _on_flow(self, code, src, dst):
        if not self._wanted(code):
            return mon.DISABLE
        self.count += 1

    def _on_start(self, code, offset):
        if not self._wanted(code):
            return mon.DISABLE
        self.count += 1
        if code.co_name == "_calculate_reading":
            self.calls += 1

    def measure(self, fn, *args, **kwargs):
        """Returns (control-flow steps, _calculate_reading invocations) executed by fn(*args)."""
        self.install()
        self.count = 0
        self.calls = 0
        mon.set_events(TOOL_LINES, E.JUMP | E.BRANCH | E.PY_START)
        try:
            fn(*args, **kwargs)
        finally:
            mon.set_events(TOOL_LINES, 0)
        return self.count, self.calls

    def measure_with_memory(self, fn, *args, **kwargs):
        """As measure(), plus the transient memory of the call: peak traced bytes above the level at
        entry (tracemalloc, started and stopped around the call).  This is the simulator's second
        meter: work done below the interpreter (a C-level copy of the whole candle list executes no
        Python branch, but it allocates 8 bytes per candle)."""
        import tracemalloc

        tracemalloc.start()
        try:
            tracemalloc.reset_peak()
            before, _ = tracemalloc.get_traced_memory()
            lines, calls = self.measure(fn, *args, **kwargs)
            _, peak = tracemalloc.get_traced_memory()
        finally:
            tracemalloc.stop()
        return lines, calls, peak - before
