"""Delta debugging on explicit traces.  A candidate is kept only if executing it yields a violation
with the SAME signature.  Guarded ops make every sub-sequence executable.  No PRNG, no clock other
than the wall-clock cut-off (which only decides when to stop shrinking, never the verdict)."""
from __future__ import annotations

import copy
import time


SHRINKING = False    # read by oracles with a numeric margin: while minimising they demand a wider one


def _test(prop, trace, sig):
    global SHRINKING
    SHRINKING = True
    try:
        # every candidate is executed in a forked child: state the library may keep between executions
        # (module-level caches) cannot leak from one candidate into the next, nor into this process
        from .runner import _in_child

        v = _in_child(prop.execute, trace)
    except Exception:  # noqa: BLE001 - a malformed candidate is simply rejected
        return None
    finally:
        SHRINKING = False
    if v.status == "violation" and v.signature == sig:
        return v
    return None


def _ddmin(items, keep, deadline):
    """Classic ddmin: `keep(list) -> bool`; returns a 1-minimal sublist (w.r.t. chunk removal)."""
    n = 2
    while len(items) >= 1 and time.time() < deadline:
        size = max(1, len(items) // n)
        removed = False
        i = 0
        while i < len(items) and time.time() < deadline:
            cand = items[:i] + items[i + size:]
            if keep(cand):
                items = cand
                n = max(n - 1, 2)
                removed = True
            else:
                i += size
        if not removed:
            if size == 1:
                break
            n = min(len(items), n * 2)
    return items


def shrink(prop, trace, sig, time_limit=60.0):
    deadline = time.time() + time_limit
    best = copy.deepcopy(trace)
    best_v = _test(prop, best, sig)
    if best_v is None:
        raise RuntimeError("trace does not produce the violation it is supposed to shrink")

    def attempt(cand):
        nonlocal best, best_v
        v = _test(prop, cand, sig)
        if v is not None:
            best, best_v = cand, v
            return True
        return False

    changed = True
    rounds = 0
    while changed and time.time() < deadline and rounds < 6:
        rounds += 1
        changed = False
        before = _size(best)
        # 0. cut everything after the failing op
        if 0 <= best_v.op_index < len(best["ops"]) - 1:
            cand = dict(best, ops=best["ops"][: best_v.op_index + 1])
            attempt(cand)
        # 1. drop ops (keep ops[0], the constructor)
        head, tail = best["ops"][:1], best["ops"][1:]

        def keep_ops(sub):
            return attempt(dict(best, ops=head + sub))

        _ddmin(tail, keep_ops, deadline)
        # 2. drop candles inside each append / preload
        for oi in range(len(best["ops"])):
            if time.time() >= deadline:
                break
            op = best["ops"][oi]
            for key in ("candles", "preload"):
                rows = op.get(key)
                if not rows:
                    continue

                def keep_rows(sub, oi=oi, key=key):
                    ops = list(best["ops"])
                    ops[oi] = dict(ops[oi], **{key: sub})
                    return attempt(dict(best, ops=ops))

                _ddmin(list(rows), keep_rows, deadline)
        # 3. merge adjacent appends
        oi = 1
        while oi < len(best["ops"]) - 1 and time.time() < deadline:
            a, b = best["ops"][oi], best["ops"][oi + 1]
            if a["op"] == "append" and b["op"] == "append" and a.get("enc") == b.get("enc"):
                ops = list(best["ops"])
                ops[oi] = dict(a, candles=list(a["candles"]) + list(b["candles"]))
                del ops[oi + 1]
                if attempt(dict(best, ops=ops)):
                    continue
            oi += 1
        # 4. property-specific simplifications of the configuration
        simp = getattr(prop, "simplify", None)
        if simp is not None:
            progress = True
            guard = 0
            while progress and time.time() < deadline and guard < 50:
                guard += 1
                progress = False
                for cand in simp(best):
                    if time.time() >= deadline:
                        break
                    if attempt(copy.deepcopy(cand)):
                        progress = True
                        break
        # 5. simplify candle values: regular unit volume, rounded prices
        for oi in range(len(best["ops"])):
            if time.time() >= deadline:
                break
            for key in ("candles", "preload"):
                rows = best["ops"][oi].get(key)
                if not rows:
                    continue
                simple = [_simple_row(r) for r in rows]
                if any(x is None for x in simple) or simple == rows:
                    continue
                ops = list(best["ops"])
                ops[oi] = dict(ops[oi], **{key: simple})
                attempt(dict(best, ops=ops))
        changed = _size(best) < before
    best = dict(best)
    best.pop("fired", None)
    best["minimised"] = True
    return best, best_v


def _simple_row(r):
    """Same candle with prices rounded to 1 decimal and unit volume; None if that would leave the
    well-formed domain (non-positive price)."""
    o, c = round(r[1], 1), round(r[4], 1)
    h = max(round(r[2], 1), o, c)
    lo = min(round(r[3], 1), o, c)
    if min(o, c, h, lo) <= 0:
        return None
    return [r[0], o, h, lo, c, 1 if r[5] else 0]


def _size(trace):
    n = len(trace["ops"])
    for op in trace["ops"]:
        n += len(op.get("candles") or ()) + len(op.get("preload") or ())
    return n
