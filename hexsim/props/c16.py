"""C16 -- pattern and movement functions are causal and index-consistent.

Subject: every function of PATTERN_MAP / MOVEMENT_MAP, called directly on the candle list of a live
Hexital (whose other members provide readings with a warm-up, dict-valued readings and a missing
name) and wrapped as an Amorph member.  The simulator contributes the second observation time:
while the list grows it records the answer for candle t when t is the newest candle (default
index, -1 and t), and later requires f(index=i) == f(index=i-len) == f(list truncated after i),
never raising; the Amorph column must equal that ledger live and in batch.
"""
from __future__ import annotations

from hexital import Hexital
from hexital.analysis import MOVEMENT_MAP, PATTERN_MAP

from .. import planlib, world
from ..catalogue import MOVEMENTS, PATTERNS, PRICE_FIELDS, build, mk_candles, sample_analysis
from ..core import Discard, LibError, Violation, run_property
from ..util import freeze, secs, sub_rng

ID = "C16"
LEVEL = "exploration"
SUBBATCHES = ("calm", "faulty")
REFERENCE_MODELS = ["ledger of answers recorded when each candle was the newest (the truncated list is the earlier state)"]
FUNCS = {**PATTERN_MAP, **MOVEMENT_MAP}
RULE = ("seeded world loop (chunked delivery, flat/one-sided regimes) grows the candle list of a real Hexital with "
        "live helper indicators; one pattern/movement function per run is called directly and through Amorph; "
        "non-trivial = at least 3 candles were re-checked at a later observation time (runs in which the function "
        "returned two different answers are counted separately as a reach probe); distinct = distinct digests of (trace, observed answers)")

HELPERS = [
    {"cls": "EMA", "params": {"period": 3}, "common": {}},
    {"cls": "SMA", "params": {"period": 5}, "common": {}},
    {"cls": "MACD", "params": {"fast_period": 2, "slow_period": 4, "signal_period": 2}, "common": {}},
    {"cls": "BBANDS", "params": {"period": 4}, "common": {}},
    {"cls": "Supertrend", "params": {"period": 3, "multiplier": 1.0}, "common": {}},
    {"cls": "RSI", "params": {"period": 4}, "common": {}},
]
HELPER_NAMES = ["EMA_3", "SMA_5", "MACD_2_4_2.MACD", "MACD_2_4_2.signal", "BBANDS_4.BBM", "BBANDS_4.BBU",
                "Supertrend_3.long", "Supertrend_3.short", "Supertrend_3.long",
                # helper series kept in candle.sub_indicators
                "MACD_2_4_2_EMA_fast", "BBANDS_4_SMA", "Supertrend_3_atr", "Supertrend_3_atr_TR",
                # one field of a DICT-valued helper series (stored as None while RSI warms up)
                "RSI_4", "RSI_4_data.gain", "RSI_4_data.loss"]
MISSING = "no_such_reading"


def plan(seed, subbatch):
    cfg = sub_rng(seed, "config")
    base_s = cfg.choice((60, 300, 3600))
    fn = cfg.choice(MOVEMENTS + PATTERNS)
    pool = PRICE_FIELDS + HELPER_NAMES + ([MISSING] if cfg.random() < 0.3 else [])
    if cfg.random() < 0.35:
        pool = PRICE_FIELDS
    args = sample_analysis(cfg, fn, pool)
    n = cfg.choice((cfg.randint(1, 14), cfg.randint(10, 40), cfg.randint(20, 120)))
    regimes = None
    burst = None
    if subbatch == "faulty":
        regimes = world.REGIMES_NORMAL + cfg.sample(world.REGIMES_DEGENERATE, 2)
        burst = {"p": 0.1, "min": 3, "max": 30}
    start = world.pick_start(cfg, base_s)
    # a Hexital on a collapsing timeframe more often for the patterns (their averages run over merged buckets),
    # then fed one candle per append half of the time so that the forming bucket is re-evaluated after every merge
    tf_mode = sub_rng(seed, "tf-mode").random() < (0.65 if fn in PATTERNS else 0.3)
    pre, ops, fired, rows = planlib.stream_and_schedule(seed, subbatch, n, base_s, start, {}, burst, 0.0,
                                                        regimes=regimes, regime_len=(2, 15),
                                                        style=("ones" if tf_mode and sub_rng(seed, "tf-ones").random() < 0.7 else None))
    if fn in PATTERNS and sub_rng(seed, "shapes").random() < 0.5:
        # pattern-shaped candles with proportions around the functions' thresholds (the rows are shared with the ops)
        every = list(pre) + [r for op in ops if op["op"] == "append" for r in op["candles"]]
        fired["pattern_shapes_injected"] += planlib.inject_shapes(sub_rng(seed, "shapes-at"), every)
    tf = None
    if tf_mode:
        # the whole Hexital on a collapsing timeframe: the newest bucket is merged into between evaluations
        tf = world.pick_timeframe(cfg, base_s, 2.0, 4.0, allow_finer=False)
    return {"format": 1, "property": ID, "seed": seed, "subbatch": subbatch,
            "config": {"settings_edit": sub_rng(seed, "settings-edit").random() < 0.2, "prewarmed": sub_rng(seed, "prewarmed").random() < 0.15,
                       "fn": fn, "args": args, "base_s": base_s, "amorph_form": cfg.choice(("object", "dict")),
                       "tf": tf},
            "ops": [{"op": "new", "preload": pre}] + ops + [{"op": "check"}], "fired": dict(fired)}


def _members(cfg, shared=None):
    """`shared`: the caller's configuration dict, ONE object used for every Hexital built from it (a settings
    list kept by the caller and used for the live object and for the batch object alike)."""
    fn, args = cfg["fn"], cfg["args"]
    members = [build(h) for h in HELPERS]
    if cfg.get("amorph_form") == "dict":
        members.append(shared if shared is not None else {"analysis": fn, "args": dict(args)})
    else:
        am = build({"cls": "Amorph", "analysis": fn, "params": args, "common": {}})
        if cfg.get("prewarmed"):
            # the wrapper has already been used on its own, over OTHER candles, before it joins the Hexital
            # (a helper-less indicator may be moved like that: it adopts the Hexital's candles)
            am.append(mk_candles([[1_600_000_000 + 60 * k, 50.0 + k % 3, 52.0 + k % 3, 49.0, 51.0 + (k % 2), 10 + k]
                                  for k in range(14)]))
        members.append(am)
    return members


def _rnd(v):
    return round(v, 4) if isinstance(v, float) else v


def execute(trace, ctx=None):
    def body(run):
        cfg = trace["config"]
        fn_name, args = cfg["fn"], cfg["args"]
        fn = FUNCS[fn_name]
        delivered = []
        hx = None
        shared = {"analysis": fn_name, "args": dict(args)} if cfg.get("amorph_form") == "dict" else None
        ledger = {}  # candle position -> answer recorded when it was the newest candle
        values_seen = set()
        later_checked = 0

        def call(candles, **kw):
            try:
                return run.call(len(candles), fn, candles, **args, **kw)
            except LibError as e:
                raise Violation("raises", fn_name, e.site,
                                {"error": repr(e.exc), "kw": kw, "len": len(candles), "args": args})

        def wrapper_failure(e, kind):
            # only failures inside the analysis code / its wrapper are this property's business; a
            # helper indicator that raises on a degenerate stream is C09's
            if any(f in e.site for f in ("movement.py", "patterns.py", "utils.py", "amorph.py", "indexing.py",
                                         "candles.py")):
                raise Violation("wrapper-raises", fn_name, e.site, {"error": repr(e.exc), "op": kind})
            raise Discard("helper-indicator-raised:" + e.type)

        def amorph_name():
            return list(hx.indicators)[-1]

        for i, op in enumerate(trace["ops"]):
            run.op_index = i
            kind = op["op"]
            if kind == "new":
                rows = op.get("preload") or []
                delivered.extend(rows)
                try:
                    hx = run.call(len(rows), Hexital, "sim", mk_candles(rows), _members(cfg, shared), timeframe=cfg.get("tf"))
                    run.call(len(rows) * 4, hx.calculate)
                except LibError as e:
                    wrapper_failure(e, kind)
            elif hx is None:
                continue
            elif kind == "append":
                rows = op["candles"]
                if rows and delivered and rows[0][0] < delivered[-1][0]:
                    continue
                delivered.extend(rows)
                if cfg.get("settings_edit"):
                    # between arrivals the caller reads the wrapper's settings and edits the copy it was handed
                    # (cloning the configuration into a variant): the live wrapper must not notice
                    from .c19 import _scribble

                    try:
                        _scribble(hx.indicator(amorph_name()).settings)
                        _scribble(hx.indicator_settings)
                    except Exception as exc:  # noqa: BLE001
                        raise Violation("wrapper-raises", fn_name, "settings:" + type(exc).__name__, {"error": repr(exc)})
                try:
                    run.call(len(delivered) * 4, hx.append, mk_candles(rows))
                except LibError as e:
                    wrapper_failure(e, kind)
            elif kind != "check":
                continue
            candles = hx.candles()
            n = len(candles)
            if n == 0:
                continue
            # observation 1: candle n-1 is the newest candle right now
            t = n - 1
            if cfg.get("tf"):
                # the newest bucket is still forming: its answer may legitimately change until it closes;
                # the closed candle before it is final
                t = n - 2
            if t >= 0 and cfg.get("tf") and t not in ledger:
                ledger[t] = call(candles[: t + 1])
            elif t not in ledger:
                v_def = call(candles)
                v_neg = call(candles, index=-1)
                v_pos = call(candles, index=t)
                if not (freeze(v_def) == freeze(v_neg) == freeze(v_pos)):
                    which = "default-vs-positive" if freeze(v_def) != freeze(v_pos) else "negative-vs-positive"
                    raise Violation("newest-candle", fn_name, which,
                                    {"default": v_def, "minus1": v_neg, "positive": v_pos, "t": t, "args": args})
                ledger[t] = v_def
                values_seen.add(freeze(v_def))
            # observation 2 (later time): sampled earlier candles, both index forms and the truncated list
            if kind == "check" or i % 5 == 0:
                idxs = sorted(set(range(0, min(n, 12))) | set(range(max(0, n - 6), n))
                              | set(range(0, n, max(1, n // 10))))
                for j in idxs:
                    v_pos = call(candles, index=j)
                    v_neg = call(candles, index=j - n)
                    v_trunc = call(candles[: j + 1])
                    values_seen.add(freeze(v_trunc))
                    if freeze(v_pos) != freeze(v_trunc):
                        early = "early" if j < 10 else "later"
                        raise Violation("index-vs-truncated", fn_name, early,
                                        {"i": j, "n": n, "at_index": v_pos, "truncated": v_trunc, "args": args})
                    if freeze(v_neg) != freeze(v_pos):
                        raise Violation("negative-index", fn_name, "differs",
                                        {"i": j, "n": n, "positive": v_pos, "negative": v_neg, "args": args})
                    if j in ledger and freeze(ledger[j]) != freeze(v_pos):
                        raise Violation("ledger", fn_name, "answer-changed-after-growth",
                                        {"i": j, "n": n, "then": ledger[j], "now": v_pos, "args": args})
                    if j < n - 1:
                        later_checked += 1
                run.observe(kind, [freeze(ledger.get(j)) for j in idxs])
                # observation 3: the next candle has ARRIVED but nothing has been calculated on it yet (the
                # state inside append() between the candle manager and calculate()): answers for the
                # candles before it must not move
                if not cfg.get("tf") and n >= 2:
                    last = candles[-1]
                    arrived = mk_candles([[secs(last.timestamp) + cfg["base_s"], last.close, last.close + 1.0,
                                           max(last.close - 1.0, 0.01), last.close, 1]])
                    grown = list(candles) + arrived
                    for j in idxs:
                        if freeze(call(grown, index=j)) != freeze(call(candles[: j + 1])):
                            raise Violation("index-vs-truncated", fn_name, "newest-candle-not-calculated-yet",
                                            {"i": j, "n": n + 1, "args": args})
                    run.stats["reach:uncalculated_newest_candle_probes"] += 1
            if kind == "check":
                # the wrapper: live column == ledger of truncated evaluations == batch column
                name = amorph_name()
                live = hx.indicator(name).as_list()
                want = [_rnd(call(candles[: j + 1])) for j in range(n)]
                if [freeze(x) for x in live] != [freeze(x) for x in want]:
                    j = next(x for x in range(n) if freeze(live[x]) != freeze(want[x]))
                    raise Violation("amorph-live", fn_name, "early" if j < 10 else "later",
                                    {"i": j, "live": live[j], "direct": want[j], "n": n, "args": args})
                try:
                    bt = Hexital("twin", mk_candles(delivered), _members(cfg, shared), timeframe=cfg.get("tf"))
                    bt.calculate()
                    batch = bt.indicator(name).as_list()
                except Exception as exc:  # noqa: BLE001
                    raise Violation("wrapper-raises", fn_name, "batch:" + type(exc).__name__, {"error": repr(exc)})
                if [freeze(x) for x in batch] != [freeze(x) for x in live]:
                    j = next(x for x in range(n) if freeze(live[x]) != freeze(batch[x]))
                    raise Violation("amorph-live-vs-batch", fn_name, "early" if j < 10 else "later",
                                    {"i": j, "live": live[j], "batch": batch[j], "n": n, "args": args})
                run.stats["wrapper_columns_compared"] += 1
            run.state(fn_name, min(n, 12), "length" in args or "lookback" in args)
        if hx is None:
            raise Discard("no-new-op")
        run.stats["reach:later_observations"] += later_checked
        if any(a == MISSING for a in args.values()):
            run.stats["reach:missing_reading_name"] += 1
        if any(isinstance(a, str) and "." in a for a in args.values()):
            run.stats["reach:dotted_field_name"] += 1
        if len(values_seen) >= 2:
            run.stats["reach:function_gave_two_distinct_answers"] += 1
        run.nontrivial = later_checked >= 3
    return run_property(ID, body, trace)


NO_VACUITY = False


def simplify(trace):
    cfg = trace["config"]
    args = cfg["args"]
    for k, v in args.items():
        if isinstance(v, int) and v > 1:
            for nv in (1, 2, v - 1):
                if nv < v and not (cfg["fn"] == "value_range" and nv < 2):
                    yield dict(trace, config=dict(cfg, args=dict(args, **{k: nv})))
        if isinstance(v, str) and v not in PRICE_FIELDS:
            yield dict(trace, config=dict(cfg, args=dict(args, **{k: "close"})))
    if cfg.get("amorph_form") == "dict":
        yield dict(trace, config=dict(cfg, amorph_form="object"))
