"""C20 -- all ways of asking for a reading give the same answer.

Several accessors answer from hidden state left behind by the previous operation (the private
cursor moved by calculate / calculate_index / a trim; the manager search order of Hexital.reading),
so whether they agree depends on the operation history and on multi-timeframe state.  The simulator
drives real indicators / Hexitals through operator programs (appends, calculate, purge, recalculate,
calculate_index on early indices, lifespan trims, merges into the open bucket) and after every
operation compares all access paths for sampled names and indices.
"""
from __future__ import annotations

from hexital.utils.candles import reading_by_candle

from .. import planlib, world
from ..catalogue import DICT_VALUED, member_name, sample_members, sample_spec, spec_label
from ..core import Discard, LibError, Violation, run_property
from ..machine import Machine
from ..util import freeze, sub_rng, tf_seconds

ID = "C20"
LEVEL = "exploration"
SUBBATCHES = ("calm", "faulty")
REFERENCE_MODELS = ["direct inspection of candle.indicators / candle.sub_indicators / candle attributes"]
RULE = ("seeded operator programs (incl. calculate_index on early indices, lifespan trims, open-bucket merges) on a "
        "real indicator or multi-timeframe Hexital; after every op all access paths are compared for sampled names "
        "(plain, dotted, helper, price field) and indices; non-trivial = at least 10 accessor comparisons on non-None "
        "readings after at least one maintenance op or two appends; distinct = distinct digests of (trace, answers)")

ZERO_READERS = [
    {"cls": "Counter", "params": {"input_value": "positive", "count_value": True}, "common": {}},
    {"cls": "Counter", "params": {"input_value": "volume", "count_value": 0}, "common": {}},
    {"cls": "OBV", "params": {}, "common": {}},
    {"cls": "StandardDeviationThreshold", "params": {"period": 3, "multiplier": 2.0}, "common": {}},
    {"cls": "Amorph", "analysis": "positive", "params": {}, "common": {}},
    {"cls": "Amorph", "analysis": "rising", "params": {"indicator": "close", "length": 2}, "common": {}},
    {"cls": "MACD", "params": {"fast_period": 2, "slow_period": 3, "signal_period": 2}, "common": {}},
    {"cls": "ROC", "params": {"period": 2}, "common": {}},
]
OPS = ("calculate", "purge", "recalculate", "calc_index", "calc_index", "calc_index")


def plan(seed, subbatch):
    cfg = sub_rng(seed, "config")
    kind = "hexital" if cfg.random() < 0.6 else "indicator"
    base_s, tf, tf_s = planlib.base_and_tf(cfg, 1.0, 6.0, p_none=0.45, allow_finer=False)

    def pick():
        if cfg.random() < 0.45:
            s = cfg.choice(ZERO_READERS)
            return {**s, "params": dict(s["params"]), "common": dict(s["common"])}
        return sample_spec(cfg, max_period=8)

    if kind == "indicator":
        spec = pick()
        if tf:
            spec["common"]["timeframe"] = tf
        members, hexcfg = [spec], None
    else:
        members, names = [], set()
        for _ in range(cfg.randint(1, 3)):
            s = pick()
            if tf and cfg.random() < 0.5:
                s["common"]["timeframe"] = tf
            nm = member_name(s)
            if nm in names:
                continue
            names.add(nm)
            members.append(s)
        hexcfg = {}
        if tf and cfg.random() < 0.25:
            # the Hexital itself on the timeframe; at most one member names it explicitly, the rest inherit it
            hexcfg = {"timeframe": tf}
            keep_explicit = cfg.randint(0, len(members) - 1) if cfg.random() < 0.6 else -1
            for k, mm in enumerate(members):
                if k != keep_explicit:
                    mm["common"].pop("timeframe", None)
            names2 = set()
            members = [mm for mm in members
                       if not (member_name(dict(mm, common=dict(mm["common"], timeframe=tf))) in names2
                               or names2.add(member_name(dict(mm, common=dict(mm["common"], timeframe=tf)))))]
    fx = sub_rng(seed, "features")
    if kind == "hexital":
        if fx.random() < 0.15:
            hexcfg["candlestick_type"] = "HA"
        if tf and fx.random() < 0.15:
            hexcfg["timeframe_fill"] = True
    elif fx.random() < 0.15:
        members[0]["common"]["candlestick_type"] = "HA"
    if kind == "hexital" and sub_rng(seed, "add-later").random() < 0.15:
        hexcfg["add_later"] = True     # the Hexital is built empty, members arrive through add_indicator
    n = planlib.pick_n(cfg, (2, 12), (8, 50), (30, 120))
    lifespan = None
    if cfg.random() < 0.2:
        lifespan = (tf_s or base_s) * cfg.randint(6, 40)
        if kind == "indicator":
            members[0]["common"]["lifespan_s"] = lifespan
        else:
            hexcfg["lifespan_s"] = lifespan
    if subbatch == "calm":
        faults, burst = {}, None
    else:
        faults, burst, _pe, _k = planlib.swarm_faults(cfg, base_s, tf_s, allowed=("drop", "dup", "burst", "jitter"))
        if cfg.random() < 0.4:
            faults["_regimes"] = True
        if lifespan:
            faults["halt_to_window"] = {"p": 0.04, "lifespan_s": lifespan, "interval_s": tf_s or base_s,
                                        "kmin": -3, "kmax": 4, "after": 3}
    regimes = None
    if faults.pop("_regimes", False):
        regimes = world.REGIMES_NORMAL + ["stall", "zerovol"]
    op_rng = sub_rng(seed, "operator")
    extras = []
    for _ in range(op_rng.choice((0, op_rng.randint(1, 4), op_rng.randint(3, 15)))):
        k = op_rng.choice(OPS)
        op = {"op": k, "target": op_rng.choice((None, 0, 1, 2))}
        if k == "calc_index":
            op["pos"] = op_rng.choice((op_rng.random(), op_rng.random() * 0.3, 0.999))
            op["neg"] = op_rng.random() < 0.4
        extras.append((op_rng.random(), op))
    if kind == "hexital" and op_rng.random() < 0.35:
        # a member on a NEW timeframe registered later, when the other members already hold readings
        late_tf = world.pick_timeframe(op_rng, base_s, 2.0, 8.0, allow_finer=False)
        late = sample_spec(op_rng, max_period=6)
        late["common"]["timeframe"] = late_tf
        if member_name(late) not in {member_name(m) for m in members}:
            extras.append((0.3 + 0.6 * op_rng.random(), {"op": "add", "spec": late}))
    if kind == "hexital" and len(members) > 1 and sub_rng(seed, "remove").random() < 0.25:
        # one member leaves mid-stream: every way of asking about the others still agrees
        extras.append((0.2 + 0.6 * sub_rng(seed, "remove-at").random(), {"op": "remove", "target": sub_rng(seed, "remove-k").randint(0, 3)}))
    start = world.pick_start(cfg, base_s, tf_s)
    pre, ops, fired, rows = planlib.stream_and_schedule(seed, subbatch, n, base_s, start, faults, burst, 0.0, extras,
                                                        regimes=regimes)
    fired["operator_ops"] += len(extras)
    if lifespan:
        fired["lifespan_configured"] += 1
    return {"format": 1, "property": ID, "seed": seed, "subbatch": subbatch,
            "config": {"kind": kind, "members": members, "hexital": hexcfg, "base_s": base_s},
            "ops": [{"op": "new", "preload": pre, "calculate": cfg.random() < 0.7}] + ops
                   + [{"op": "calculate", "target": None}], "fired": dict(fired)}


CANDLE_ATTRS = ("open", "high", "low", "close", "volume", "positive", "negative", "realbody",
                "shadow_upper", "shadow_lower", "high_low")


def _direct(candle, name):
    """Direct inspection of the candle, independent of the accessor code paths.  A plain name that is
    a public value attribute of Candle (prices, volume, positive/negative, ...) denotes that attribute
    - an Amorph over `positive` is NAMED "positive" and so shares the candle attribute's name space."""
    head, _, field = name.partition(".")
    if not field and name in CANDLE_ATTRS:
        attr = getattr(candle, name, None)
        if attr is not None:
            return attr
    v = candle.indicators[head] if head in candle.indicators else candle.sub_indicators.get(head)
    if field:
        return v.get(field) if isinstance(v, dict) else v
    return v


def _names_for(slot, rot):
    """Sampled names: own, dotted fields, one helper, one price field."""
    name = slot.name
    out = [name]
    cls = slot.spec["cls"]
    if cls in DICT_VALUED:
        fields = DICT_VALUED[cls]
        out.append(f"{name}.{fields[rot % len(fields)]}")
        out.append(f"{name}.{fields[(rot + 1) % len(fields)]}")
        out.append(f"{name}.no_such_field")
    if slot.ind.candles:
        helpers = sorted(slot.ind.candles[-1].sub_indicators)
        if helpers:
            out.append(helpers[rot % len(helpers)])
    out.append(("close", "high", "volume")[rot % 3])
    return out


def execute(trace, ctx=None):
    def body(run):
        cfg = trace["config"]
        m = Machine(run, cfg)
        comparisons = 0
        maint = 0
        n_appends = 0

        def fail(oracle, slot, site, detail):
            raise Violation(oracle, spec_label(slot.spec), site, detail)

        def check_all(stage, rot):
            nonlocal comparisons
            for slot in m.live_slots():
                ind = slot.ind
                candles = ind.candles
                n = len(candles)
                if n == 0:
                    continue
                idxs = sorted({0, n - 1, max(0, n - 2), (rot * 7) % n, (rot * 3 + 1) % n})
                for nm in _names_for(slot, rot):
                    try:
                        col = ind.as_list(nm)
                    except Exception as exc:  # noqa: BLE001
                        fail("accessor-raises", slot, "as_list:" + type(exc).__name__, {"name": nm})
                    for j in idxs:
                        want = _direct(candles[j], nm)
                        answers = {}
                        try:
                            answers["reading(+i)"] = ind.reading(nm, j)
                            answers["reading(-i)"] = ind.reading(nm, j - n)
                            answers["as_list[i]"] = col[j]
                            answers["read_candle"] = ind.read_candle(candles[j], nm)
                            answers["reading_by_candle"] = reading_by_candle(candles[j], nm)
                            if m.kind == "hexital" and nm not in CANDLE_ATTRS:
                                # (a price field through Hexital.reading is by definition the default
                                # manager's, which need not be this member's manager)
                                answers["Hexital.reading(+i)"] = m.subject.reading(nm, j)
                                answers["Hexital.reading(-i)"] = m.subject.reading(nm, j - n)
                                if nm.split(".")[0] == slot.name:
                                    answers["Hexital.reading_as_list[i]"] = m.subject.reading_as_list(nm)[j]
                        except Exception as exc:  # noqa: BLE001
                            fail("accessor-raises", slot, type(exc).__name__, {"name": nm, "index": j, "n": n, "stage": stage})
                        for path, got in answers.items():
                            if freeze(got) != freeze(want):
                                fail("path-disagrees", slot, path,
                                     {"name": nm, "index": j, "n": n, "direct": want, "got": got, "stage": stage,
                                      "kind": "dotted" if "." in nm else "plain"})
                        if want is not None:
                            comparisons += len(answers)
                # default-position accessors answer for the NEWEST candle
                own = slot.name
                if own in CANDLE_ATTRS:
                    # a member named like a candle attribute "has a reading" on every candle without ever
                    # being calculated; before the first calculate() the cursor has not moved yet, so the
                    # default-position accessors legitimately show candle 0's attribute
                    continue
                newest = _direct(candles[-1], own)
                before_newest = _direct(candles[-2], own) if n >= 2 else None
                try:
                    got_reading = ind.reading()
                    got_prev = ind.prev_reading()
                    got_has = ind.has_reading
                    got_count = ind.reading_count()
                except Exception as exc:  # noqa: BLE001
                    fail("accessor-raises", slot, "default-position:" + type(exc).__name__, {"stage": stage})
                if freeze(got_reading) != freeze(newest):
                    fail("latest-disagrees", slot, "Indicator.reading()", {"got": got_reading, "newest": newest, "stage": stage, "n": n})
                if freeze(got_prev) != freeze(before_newest):
                    fail("latest-disagrees", slot, "Indicator.prev_reading()", {"got": got_prev, "want": before_newest, "stage": stage, "n": n})
                if got_has != (newest is not None):
                    fail("latest-disagrees", slot, "Indicator.has_reading", {"got": got_has, "newest": newest, "stage": stage})
                trailing = 0
                for c in reversed(candles):
                    if _direct(c, own) is None:
                        break
                    trailing += 1
                if got_count != trailing:
                    fail("latest-disagrees", slot, "Indicator.reading_count", {"got": got_count, "want": trailing, "stage": stage})
                # the same question about ANOTHER member's name living on the same candles
                for other in m.live_slots():
                    if other is slot or other.ind.candles is not ind.candles or other.name in CANDLE_ATTRS:
                        continue
                    try:
                        got_other = ind.reading_count(other.name)
                    except Exception as exc:  # noqa: BLE001
                        fail("accessor-raises", slot, "reading_count(other):" + type(exc).__name__, {"stage": stage})
                    want_other = 0
                    for c in reversed(candles):
                        if _direct(c, other.name) is None:
                            break
                        want_other += 1
                    if got_other != want_other:
                        fail("latest-disagrees", slot, "Indicator.reading_count(other name)",
                             {"got": got_other, "want": want_other, "other": other.name, "stage": stage})
                if m.kind == "hexital" and own not in CANDLE_ATTRS:
                    # (a member NAMED like a candle attribute - Amorph over positive/negative - resolves to
                    # that attribute on whichever manager Hexital.reading falls through to: the candle
                    # attribute name space is shared by design, not an accessor disagreement)
                    hx = m.subject
                    try:
                        h_read, h_prev, h_has = hx.reading(own), hx.prev_reading(own), hx.has_reading(own)
                    except Exception as exc:  # noqa: BLE001
                        fail("accessor-raises", slot, "Hexital-default:" + type(exc).__name__, {"stage": stage})
                    if freeze(h_read) != freeze(newest):
                        fail("latest-disagrees", slot, "Hexital.reading(name)", {"got": h_read, "newest": newest, "stage": stage})
                    if freeze(h_prev) != freeze(before_newest):
                        fail("latest-disagrees", slot, "Hexital.prev_reading(name)", {"got": h_prev, "want": before_newest, "stage": stage})
                    if h_has != (newest is not None):
                        zero = newest is not None and not newest
                        fail("latest-disagrees", slot, "Hexital.has_reading" + (":falsy-reading" if zero else ""),
                             {"got": h_has, "newest": newest, "stage": stage})
                    if isinstance(newest, dict):
                        # one FIELD of a dict-valued reading, by its dotted name: the same three questions
                        for fld in sorted(newest):
                            dotted = f"{own}.{fld}"
                            try:
                                f_read, f_has = hx.reading(dotted), hx.has_reading(dotted)
                            except Exception as exc:  # noqa: BLE001
                                fail("accessor-raises", slot, "Hexital-dotted:" + type(exc).__name__, {"stage": stage})
                            if freeze(f_read) != freeze(newest[fld]):
                                fail("latest-disagrees", slot, "Hexital.reading(name.field)",
                                     {"got": f_read, "newest": newest[fld], "field": fld, "stage": stage})
                            if f_has != (newest[fld] is not None):
                                fail("latest-disagrees", slot, "Hexital.has_reading(name.field)",
                                     {"got": f_has, "newest": newest[fld], "field": fld, "stage": stage})
                comparisons += 4

        for i, op in enumerate(trace["ops"]):
            run.op_index = i
            kind = op["op"]
            try:
                if kind == "new":
                    # sometimes nothing is calculated at construction: the cursor has never moved
                    m.new(op.get("preload") or [], calculate=op.get("calculate", True))
                elif m.subject is None:
                    continue
                elif kind == "append":
                    rows = op["candles"]
                    if rows and m.delivered and rows[0][0] < m.delivered[-1][0]:
                        continue
                    m.append(rows)
                    n_appends += 1 if rows else 0
                elif kind in ("calculate", "purge", "recalculate"):
                    slot = m.slot(op.get("target"))
                    getattr(m, kind)(slot)
                    maint += 1
                elif kind == "add":
                    if m.kind != "hexital" or any(s.name == member_name(op["spec"]) for s in m.live_slots()):
                        continue
                    m.add(op["spec"])
                    if i % 2:
                        m.calculate(None)   # otherwise the new member stays uncalculated until the next op
                    run.stats["late_member_on_new_timeframe"] += 1
                    maint += 1
                elif kind == "remove":
                    if m.kind != "hexital" or len(m.live_slots()) < 2:
                        continue
                    m.remove(m.slot(op.get("target", 0)))
                    run.stats["member_removed"] += 1
                    maint += 1
                elif kind == "calc_index":
                    slot = m.slot(op.get("target"))
                    targets = [slot] if slot is not None else m.live_slots()
                    if not targets:
                        continue
                    n = min(len(s.ind.candles) for s in targets)
                    if n == 0:
                        continue
                    j = min(int(op.get("pos", 0.999) * n), n - 1)
                    idx = j - n if op.get("neg") else j
                    if m.kind == "indicator":
                        slot = None
                    m.calculate_index(slot, idx)
                    run.stats["calc_index_early" if j < n - 1 else "calc_index_last"] += 1
                    maint += 1
                else:
                    continue
            except LibError as e:
                raise Discard("library-raised:" + e.type)
            check_all(kind, i)
            run.observe(kind, comparisons)
            run.state(kind, m.kind, len(m.managers()))
        if m.subject is None:
            raise Discard("no-new-op")
        run.stats["reach:accessor_comparisons"] += comparisons
        run.nontrivial = comparisons >= 10 and (maint >= 1 or n_appends >= 2)
    return run_property(ID, body, trace)


def simplify(trace):
    cfg = trace["config"]
    if cfg["kind"] == "hexital" and len(cfg["members"]) > 1:
        for k in range(len(cfg["members"])):
            yield dict(trace, config=dict(cfg, members=cfg["members"][:k] + cfg["members"][k + 1:]))
    for k, mm in enumerate(cfg["members"]):
        common = mm.get("common") or {}
        for key in ("lifespan_s", "timeframe", "round_value"):
            if key in common:
                ms = list(cfg["members"])
                ms[k] = dict(mm, common={a: b for a, b in common.items() if a != key})
                yield dict(trace, config=dict(cfg, members=ms))
    if (cfg.get("hexital") or {}).get("lifespan_s"):
        yield dict(trace, config=dict(cfg, hexital={}))
