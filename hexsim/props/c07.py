"""C07 -- work per appended candle is constant: it does not grow with history length.

Bounded liveness in SIMULATED STEPS: "each arrival is absorbed within K interpreter steps whatever
the history".  A history is built through the (faulty, chunked) feed; at history lengths N0, 2N0,
4N0, 8N0 (thorough: 16N0) eight further single candles are appended and each append is measured with
the simulator's own clock: sys.monitoring control-flow events (function entries, jumps, branches) executed
inside the files the property names
(hexital/indicators/*, hexital/analysis/*, utils/candles.py, utils/indexing.py, core/indicator.py)
and the number of _calculate_reading invocations.  No wall time is involved, so the measure is
deterministic and load independent.
"""
from __future__ import annotations

import os

from hexital import Hexital

from .. import planlib, shrink, steps, world
from ..catalogue import build, mk_candles, sample_members, sample_spec, spec_label
from ..core import Discard, LibError, Violation, run_property
from ..util import sub_rng, tf_seconds

ID = "C07"
LEVEL = "exploration"
SUBBATCHES = ("calm", "faulty")
CHUNK = 2
BUDGET = {"quick": 30, "thorough": 600}
REFERENCE_MODELS = ["work at the first rung of the ladder (the same subject, shorter history)"]
MEASURED = ("indicators/", "analysis/", "utils/candles.py", "utils/indexing.py", "core/indicator.py")
N0 = 150
MEM_PER_CANDLE = 2      # bytes of transient allocation per extra candle of history that count as growth
MEM_SLACK = 1024        # (a pointer copy of the list costs 8 per candle; the unchanged tree grows by 0)
MIN_HISTORY = 100
M = 8
RULE = ("one ladder per run: a history of N0*(1,2,4,8[,16]) candles built through the seeded feed (chunks, drops, "
        "duplicates, bursts), 8 measured single appends per rung; non-trivial = the subject had a non-None newest "
        "reading at every rung (past warm-up) and all rungs were measured; distinct = distinct digests of (trace, "
        "measured counts)")
ASSUMPTIONS = ["work = interpreter control-flow events (PY_START + JUMP + BRANCH) in the indicator / analysis / utils / "
               "core.indicator files (LINE events are not bit-stable between executions in one process); "
               "candle_manager re-collapse is O(n) per append by construction and is excluded, as the property's "
               "observe_at names indicator work",
               "second meter: transient memory (tracemalloc peak above entry level) of one append, minimum over the "
               "8 measured appends of a rung, compared between rungs for subjects without a timeframe: it sees work "
               "done below the interpreter (a C-level copy of the candle list) that executes no Python branch"]

# a manager WITHOUT a timeframe extends its list in place: there the candle manager and the candles
# themselves are measured too (a timeframe manager re-collapses its list by construction, see ASSUMPTIONS)
MEASURED_BASE = MEASURED + ("core/candle_manager.py", "core/candle.py", "core/candlestick_type.py", "candlesticks/")
_METER = None


def meter(base=False):
    global _METER
    if _METER is None:
        _METER = steps.LineMeter(MEASURED)
    _METER.set_include(MEASURED_BASE if base else MEASURED)
    return _METER


def plan(seed, subbatch):
    cfg = sub_rng(seed, "config")
    tier_rungs = 5 if os.environ.get("VERIF_TIER", "") == "thorough" or os.environ.get("HEXSIM_C07_RUNGS") == "5" else 4
    kind = "hexital" if cfg.random() < 0.3 else "indicator"
    base_s = cfg.choice((60, 300, 900))
    tf = None
    if cfg.random() < 0.35:
        tf = world.pick_timeframe(cfg, base_s, 2.0, 4.0, allow_finer=False)
    sparse = cfg.random() < 0.2
    if sparse:
        # a dependant whose input is legitimately None for long stretches after warm-up (Supertrend's
        # long/short are mutually exclusive): the newest readings of the dependant are None for many candles
        kind = "hexital"
        p = cfg.randint(2, 8)
        st = {"cls": "Supertrend", "params": {"period": p, "multiplier": cfg.choice((1.0, 2.0, 3.0))}, "common": {}}
        field = cfg.choice(("short", "long"))
        src = f"Supertrend_{p}" + (f"_{tf}" if tf else "") + "." + field
        dep = cfg.choice((
            {"cls": "StandardDeviation", "params": {"period": cfg.randint(2, 8), "input_value": src}, "common": {}},
            {"cls": "Amorph", "analysis": cfg.choice(("highest", "lowest", "rising", "falling")),
             "params": {"indicator": src, "length": cfg.randint(2, 8)}, "common": {}},
            {"cls": "Counter", "params": {"input_value": src, "count_value": 0}, "common": {}},
        ))
        if tf:
            st["common"]["timeframe"] = tf
            dep["common"]["timeframe"] = tf
        members = [st, dep]
    elif kind == "indicator":
        spec = sample_spec(cfg, max_period=20)
        if cfg.random() < 0.08:
            # an Amorph over an analysis callable written by the USER (not a shipped function)
            fn = cfg.choice(("user:close_delta", "user:range_mean", "user:body_dict"))
            spec = {"cls": "Amorph", "analysis": fn, "common": {},
                    "params": ({"length": cfg.randint(2, 9)} if fn == "user:range_mean" else {})}
        if tf:
            spec["common"]["timeframe"] = tf
        members = [spec]
    else:
        members = sample_members(cfg, cfg.randint(2, 5), [None, tf] if tf else [None], max_period=14)
    per_bucket = (tf_seconds(tf) // base_s) if tf else 1
    n0 = N0 * per_bucket
    rungs = [n0 * (2 ** k) for k in range(tier_rungs)]
    total = rungs[-1]
    if subbatch == "calm":
        faults, burst = {}, None
    else:
        faults, burst, _pe, _k = planlib.swarm_faults(cfg, base_s, tf_seconds(tf) if tf else None,
                                                      allowed=("drop", "dup", "burst"))
    start = world.pick_start(cfg, base_s, tf_seconds(tf) if tf else None)
    tf_s = tf_seconds(tf) if tf else base_s
    regimes = None
    if cfg.random() < 0.15:
        regimes = [cfg.choice(("zerovol", "zerovol", "stall0", "oneside_up"))]   # e.g. a feed without volume
        if regimes[0] != "oneside_up" and kind == "indicator" and not sparse and cfg.random() < 0.6:
            # the indicators whose code paths depend on volume
            vcls = cfg.choice(("VWAP", "VWMA", "OBV"))
            members = [{"cls": vcls, "params": ({} if vcls == "OBV" else {"period": cfg.randint(2, 12)}),
                        "common": ({"timeframe": tf} if tf else {})}]
    quiet = (not sparse) and sub_rng(seed, "quiet").random() < 0.08
    if quiet:
        # a quiet instrument: the whole history is flat and the FIRST measured candle of every rung is the one that
        # moves (no settling stretch): a walk back over a run of equal readings would grow with the rung
        regimes = ["stall"]
    rows, fired = world.make_stream(sub_rng(seed, "exchange"), total, base_s, start, faults, regimes=regimes)
    if regimes:
        fired["whole_stream_" + regimes[0]] += 1
    # The probe sequence: the SAME relative price pattern (settling stretch + 8 measured candles) is
    # replayed at every rung, bucket aligned, so that data dependent early exits of look-back loops
    # behave identically at every rung and only the history length differs.
    pat = sub_rng(seed, "probe-pattern")
    settle_n = 0 if quiet else 40 * per_bucket
    pattern = []
    c = 0
    for _ in range(settle_n + M):
        o = c
        c = max(-40, min(40, o + pat.randint(-6, 6)))
        pattern.append((o, max(o, c) + pat.choice((0, 1, 2, 3)), min(o, c) - pat.choice((0, 1, 2, 3)), c,
                        pat.randint(1, 5000)))
    tick = 0.1
    # with gap filling: every second measured candle arrives three buckets late (the same at every rung), so one
    # append also computes the inserted candles - a number bounded by the gap, not by the history
    probe_gap = bool(tf) and sub_rng(seed, "probe-gap").random() < 0.3
    feed = sub_rng(seed, "feed")
    ops = [{"op": "new", "preload": []}]
    pos = 0
    shift = 0
    for r in rungs:
        seg = [[x[0] + shift] + list(x[1:]) for x in rows[pos:r]]
        pos = r
        if seg:
            sizes, f2 = world.make_chunks(feed, len(seg), feed.choice(("mixed", "few_large", "geometric", "one_giant")), 0.0, burst)
            fired.update(f2)
            ops += world.schedule(feed, seg, sizes, [])
        last_ts = seg[-1][0] if seg else start
        last_close = seg[-1][4] if seg else 100.0
        # bucket aligned start of the probe sequence, always the same number of buckets after the bucket the
        # history ended in (whether or not its last candle sat exactly on a bucket edge: with gap filling and no
        # settling stretch that number is part of what the first measured append has to compute)
        t0 = -(-last_ts // tf_s) * tf_s + tf_s
        base = max(last_close, 60 * tick)
        gap_at = (lambda k: 3 * tf_s * max(0, (k - settle_n + 1) // 2)) if probe_gap else (lambda k: 0)
        probe = [[t0 + (k + 1) * base_s + gap_at(k), round(base + po * tick, 6), round(base + ph * tick, 6),
                  round(base + pl * tick, 6), round(base + pc * tick, 6),
                  0 if regimes and regimes[0] in ("zerovol", "stall0") else pv]
                 for k, (po, ph, pl, pc, pv) in enumerate(pattern)]
        ops.append({"op": "append", "candles": probe[:settle_n // 2]})
        ops.append({"op": "append", "candles": probe[settle_n // 2:settle_n]})
        ops.append({"op": "measure", "candles": probe[settle_n:], "history": r})
        # later history continues after the probe sequence
        end = probe[-1][0]
        nxt = rows[pos][0] + shift if pos < len(rows) else end
        if nxt <= end:
            shift += (end - nxt) + base_s
            shift += (-shift) % tf_s if tf else 0
    return {"format": 1, "property": ID, "seed": seed, "subbatch": subbatch,
            "config": {"kind": kind, "members": members, "base_s": base_s, "rungs": rungs, "sparse": sparse,
                       # a lifespan that never evicts anything during the run, and / or timezone-aware timestamps:
                       # the trimming step runs on every append and must stay O(1) whatever it finds
                       "lifespan_s": (10 * (rows[-1][0] - rows[0][0] + 100 * tf_s) if rows and sub_rng(seed, "lifespan").random() < 0.2
                                      else None),
                       "utc_offset_min": sub_rng(seed, "aware").choice((None, None, None, 0, 60, -210)),
                       "fill": probe_gap,
                       "ctype": "HA" if sub_rng(seed, "ctype").random() < 0.15 else None,    # conversion resumes, it does not rescan
                       # two candles per measured append: the first of them is calculated at a NON-latest index
                       "probe_pairs": sub_rng(seed, "probe-pairs").random() < 0.3,
                       "probe_bare": sub_rng(seed, "probe-form").random() < 0.3,
                       "probe_ties": sub_rng(seed, "probe-ties").random() < 0.25},
            "ops": ops, "fired": dict(fired)}


def _build(cfg):
    from datetime import timedelta

    life = cfg.get("lifespan_s")
    if cfg["kind"] == "indicator":
        spec = cfg["members"][0]
        if life:
            spec = dict(spec, common=dict(spec["common"], lifespan_s=life))
        if cfg.get("fill") and spec["common"].get("timeframe"):
            spec = dict(spec, common=dict(spec["common"], timeframe_fill=True))
        if cfg.get("ctype"):
            spec = dict(spec, common=dict(spec["common"], candlestick_type=cfg["ctype"]))
        ind = build(spec, [])
        return ind, [ind]
    inds = [build(m) for m in cfg["members"]]
    kw = {"candles_lifespan": timedelta(seconds=life)} if life else {}
    if cfg.get("fill"):
        kw["timeframe_fill"] = True
    if cfg.get("ctype"):
        kw["candlestick_type"] = cfg["ctype"]
    return Hexital("sim", [], inds, **kw), inds


def execute(trace, ctx=None):
    from .. import catalogue

    catalogue.TZ_OFFSET_MIN = trace["config"].get("utc_offset_min")
    try:
        return _execute(trace)
    finally:
        catalogue.TZ_OFFSET_MIN = None


def _execute(trace):
    def body(run):
        cfg = trace["config"]
        label = "+".join(spec_label(m) for m in cfg["members"])
        subject = inds = None
        delivered = 0
        last_ts = None
        measured = []   # (history, max lines, max calls, per-append lines)
        mems = []       # per rung: the SMALLEST transient memory of the 8 measured appends
        warm_all = True
        for i, op in enumerate(trace["ops"]):
            run.op_index = i
            kind = op["op"]
            try:
                if kind == "new":
                    subject, inds = _build(cfg)
                elif subject is None:
                    continue
                elif kind == "append":
                    rows = op["candles"]
                    if rows and last_ts is not None and rows[0][0] < last_ts:
                        continue
                    if rows:
                        last_ts = rows[-1][0]
                    delivered += len(rows)
                    run.call(delivered * 8 + 100_000, subject.append, mk_candles(rows))
                elif kind == "measure":
                    per = []
                    calls = []
                    mem = []
                    mt = meter(base=not any(m["common"].get("timeframe") for m in cfg["members"]))
                    rows_m = list(op["candles"])
                    groups = ([rows_m[x:x + 2] for x in range(0, len(rows_m), 2)] if cfg.get("probe_pairs")
                              else [[r] for r in rows_m])
                    for k_row, grp in enumerate(groups):
                        if cfg.get("probe_ties") and k_row % 2 == 1 and not cfg.get("probe_pairs"):
                            grp = [[last_ts] + list(grp[0][1:])]     # same second as the candle before it (legal)
                        if last_ts is not None and grp[0][0] < last_ts:
                            continue
                        last_ts = grp[-1][0]
                        delivered += len(grp)
                        c = mk_candles(grp)
                        if cfg.get("probe_bare") and len(c) == 1:
                            c = c[0]      # a single candle handed over as a bare Candle object
                        lines, ncalls, nbytes = mt.measure_with_memory(subject.append, c)
                        per.append(lines)
                        calls.append(ncalls)
                        mem.append(nbytes)
                    if not per:
                        continue
                    n_candles = len(inds[0].candles)
                    # which members had a reading on the newest candle (None vs value takes different paths)
                    state = tuple(ind.candles[-1].indicators.get(ind.name) is None for ind in inds if ind.candles)
                    measured.append((n_candles, max(per), max(calls), per, state))
                    mems.append(min(mem))
                    for k, ind in enumerate(inds):
                        v = ind.candles[-1].indicators.get(ind.name) if ind.candles else None
                        if v is None and not (cfg.get("sparse") and k == 1):
                            warm_all = False
                        if v is None and cfg.get("sparse") and k == 1:
                            run.stats["reach:rungs_with_none_newest_reading_of_dependant"] += 1
                    run.stats["measured_appends"] += len(per)
            except LibError as e:
                raise Discard("library-raised:" + e.type)
        if subject is None or len(measured) < 2:
            raise Discard("ladder-incomplete")
        if measured[0][0] < MIN_HISTORY:
            raise Discard("history-shorter-than-warm-up-bound")   # keeps shrinking inside the property's domain
        base_n, base_lines, base_calls, _, base_state = measured[0]
        run.observe([(n, l, c) for n, l, c, _p, _s in measured])
        comparable = 0
        has_tf = any(m["common"].get("timeframe") for m in cfg["members"])
        # while a trace is being minimised the memory oracle asks for twice the margin, so that the minimal
        # trace still violates with room to spare when replayed (allocation counts vary by some dozens of
        # bytes with the interpreter's free lists; the verdict on a replay file must not)
        wide = 2 if shrink.SHRINKING else 1
        for k, (n, lines, calls, per, state) in enumerate(measured[1:], 1):
            if not has_tf and state == base_state and mems[k] > mems[0] + wide * (MEM_PER_CANDLE * (n - base_n) + MEM_SLACK):
                # base-timeframe managers extend their list in place: nothing in one append may allocate
                # in proportion to the history (the occasional list re-allocation is amortised and hits at
                # most one of the eight measured appends, hence the minimum).  Timeframe managers rebuild
                # their list on every append by construction and are excluded (see ASSUMPTIONS).
                raise Violation("memory-grows-with-history", label, "transient-bytes",
                                {"ladder": [(a, m) for (a, *_r), m in zip(measured, mems)],
                                 "limit": mems[0] + MEM_PER_CANDLE * (n - base_n) + MEM_SLACK})
            if state != base_state:
                # a member had no reading at one rung and one at the other (legitimately different code
                # path, e.g. a dependant of Supertrend.short): not comparable, reported
                run.stats["guard:rung_state_differs_not_compared"] += 1
                continue
            comparable += 1
            if lines > 1.25 * base_lines + 20:
                raise Violation("work-grows-with-history", label, "lines",
                                {"ladder": [(a, b, c) for a, b, c, _p, _s in measured], "limit": 1.25 * base_lines + 20})
            if calls > base_calls + 2:
                raise Violation("work-grows-with-history", label, "calculate_reading-calls",
                                {"ladder": [(a, b, c) for a, b, c, _p, _s in measured]})
        run.stats["reach:ladders_measured"] += 1
        run.stats["reach:history_candles_at_last_rung"] += measured[-1][0]
        run.state(cfg["kind"], len(cfg["members"]), any(m["common"].get("timeframe") for m in cfg["members"]))
        run.nontrivial = warm_all and len(measured) == len(cfg["rungs"]) and comparable >= 1
    return run_property(ID, body, trace)


def simplify(trace):
    cfg = trace["config"]
    if cfg["kind"] == "hexital" and len(cfg["members"]) > 1:
        for k in range(len(cfg["members"])):
            yield dict(trace, config=dict(cfg, members=cfg["members"][:k] + cfg["members"][k + 1:]))
