"""C15 -- lifespan trimming keeps exactly the window and leaves its readings unchanged.

Subject: a real indicator (or Hexital) with candles_lifespan, with / without a collapsing timeframe,
next to a real UNTRIMMED twin under the same schedule.
 O-A (always): after every append the retained timestamps are exactly the twin's timestamps that are
      >= newest - lifespan, in order (reference window), with identical OHLCV.
 O-B (guarded by the property's own precondition): readings on the retained candles equal the tail of
      the twin's.  Before each append the simulator evaluates, from the twin and the reference
      window, whether every candle the append adds still has its look-back among the candles that
      survive this append's trim; if not, O-B is disarmed for the rest of the run (reported).
The window is made tight in candles by feed faults: outages of (lifespan - k*interval).
"""
from __future__ import annotations

from hexital import Hexital

from .. import planlib, refmodels, world
from ..catalogue import CLASSES, build, mk_candles, sample_spec, spec_label
from ..core import Discard, LibError, Violation, filled_size, run_property
from ..util import candle_core, freeze, secs, sub_rng, tf_seconds

ID = "C15"
LEVEL = "exploration"
SUBBATCHES = ("calm", "faulty")
REFERENCE_MODELS = ["untrimmed twin under the same schedule", "lifespan window (refmodels.trim)",
                    "look-back table per indicator class (precondition of the second clause)"]
RULE = ("seeded world loop (chunked delivery, drops, bursts, outages sized lifespan - k*interval) executed on a real "
        "indicator/Hexital with candles_lifespan and on an untrimmed twin; non-trivial = at least one candle was "
        "evicted and at least one non-None reading was compared with the twin while the precondition guard was "
        "armed; distinct = distinct digests of (trace, retained windows)")

RECURSIVE = {"EMA", "RMA", "OBV", "VWAP", "ATR", "TR", "RSI", "MACD", "TSI", "ADX", "KC", "Supertrend", "Counter"}
WINDOW_FULL = {"SMA", "ROC", "StandardDeviation", "BBANDS", "StandardDeviationThreshold", "AROON", "HighestLowest"}
WINDOW_M1 = {"WMA", "VWMA", "HMA", "Donchian"}
MARGIN = 0   # was 2 while the table was being validated; the look-backs below are exact


def lookback(spec):
    """Predecessors (in candles) a steady-state reading of this indicator needs."""
    c, p = spec["cls"], spec.get("params") or {}
    if c in RECURSIVE:
        return 1
    if c == "HighLowAverage":
        return 0
    if c in WINDOW_FULL:
        return p["period"] + MARGIN
    if c in WINDOW_M1:
        return p["period"] - 1 + MARGIN
    if c == "STOCH":
        return max(p["period"] - 1, p["smoothing_k"], p["slow_period"]) + MARGIN
    raise KeyError(c)


def warmup_estimate(spec):
    """Generous estimate (in candles) of when every output field has a value."""
    p = spec.get("params") or {}
    vals = [v for k, v in p.items()
            if isinstance(v, int) and not isinstance(v, bool) and ("period" in k or k == "smoothing_k")]
    return 3 * (max(vals) if vals else 2) + 6


def plan(seed, subbatch):
    cfg = sub_rng(seed, "config")
    kind = "hexital" if cfg.random() < 0.3 else "indicator"
    base_s, tf, tf_s = planlib.base_and_tf(cfg, 1.0, 4.0, p_none=0.55, allow_finer=False)
    classes = [c for c in CLASSES]
    k_members = 1 if kind == "indicator" else cfg.randint(1, 2)
    members = []
    names = set()
    while len(members) < k_members:
        s = sample_spec(cfg, cfg.choice(classes), max_period=8, round_values=False)
        if tf and (kind == "indicator" or cfg.random() < 0.6):
            s["common"]["timeframe"] = tf
            if kind == "indicator" and cfg.random() < 0.3:
                s["common"]["timeframe_fill"] = True
        from ..catalogue import helper_collision, member_name
        nm = member_name(s)
        if nm in names or any(helper_collision(s, o) for o in members):
            continue
        names.add(nm)
        members.append(s)
    interval = max([tf_seconds(m["common"]["timeframe"]) if m["common"].get("timeframe") else base_s for m in members])
    warm = max(warmup_estimate(m) for m in members)
    per_bucket = max(1, interval // base_s)
    life_candles = warm + cfg.randint(2, 30 if per_bucket == 1 else 10)
    fill_hex = kind == "hexital" and tf is not None and cfg.random() < 0.3
    lifespan_s = interval * life_candles
    edge = sub_rng(seed, "life-edge").random()
    if edge < 0.25:
        # not a whole number of intervals: the cut-off falls between two candles
        lifespan_s += sub_rng(seed, "life-frac").randint(1, max(1, interval - 1))
    short_life = False
    if edge >= 0.97:
        # the smallest legal lifespan: zero (only candles carrying the newest timestamp are retained)
        lifespan_s, short_life = 0, True
    elif kind == "hexital" and per_bucket > 1 and sub_rng(seed, "short-life").random() < 0.12:
        short_life = True
        # a Hexital lifespan SHORTER than a member's timeframe: that member's window is the newest bucket alone
        # (no reading can be compared there; the retained window still has to be exact in every manager)
        lifespan_s = base_s * sub_rng(seed, "short-life-k").randint(1, per_bucket - 1)
    if subbatch == "calm":
        # regular grid: the window slides once more candles than the lifespan holds have arrived
        n = (life_candles + cfg.choice((cfg.randint(-5, 5), cfg.randint(5, 40), cfg.randint(20, 120)))) * per_bucket
    else:
        n = cfg.choice((cfg.randint(warm, warm + 30), cfg.randint(warm + 10, 300))) * min(per_bucket, 2)
    n = min(n, 420)
    n = max(2, n)
    faults = {}
    burst = None
    if subbatch == "faulty":
        faults, burst, _pe, _k = planlib.swarm_faults(cfg, base_s, tf_s, allowed=("drop", "burst", "dup"))
        faults["halt_to_window"] = {"p": cfg.choice((0.02, 0.05)), "lifespan_s": lifespan_s, "interval_s": interval,
                                    "kmin": -1, "kmax": 8, "after": warm}
    start = world.pick_start(cfg, base_s, tf_s)
    env = planlib.dst_env(sub_rng(seed, "env"), n, base_s)
    if env:
        start = env[1]     # the stream straddles an offset change of the zone the process runs in
    regimes = None
    if subbatch == "faulty" and sub_rng(seed, "regimes").random() < 0.3:
        # one-sided and flat stretches: readings of exactly 0 (RSI after a run of falling closes, ATR on flat candles)
        regimes = world.REGIMES_NORMAL + ["oneside_down", "oneside_down", "stall", "oneside_up"]
    pre, ops, fired, rows = planlib.stream_and_schedule(seed, subbatch, n, base_s, start, faults, burst, 0.0,
                                                        regimes=regimes, regime_len=(4, 30),
                                                        # (nothing may be trimmed at construction: a member manager
                                                        # derived from trimmed base candles is the known C08 finding)
                                                        preload=min(cfg.choice((0, 0, 1, 5)), 1 if short_life else 5))
    return {"format": 1, "property": ID, "seed": seed, "subbatch": subbatch,
            "config": {"sharing_neighbour": (kind == "indicator" and not any(m["common"].get("timeframe") for m in members)
                                             and sub_rng(seed, "sharing").random() < 0.15), "sim_now": planlib.pick_sim_now(sub_rng(seed, "sim-now"), rows), "process_tz": env[0] if env else None, "kind": kind, "members": members, "lifespan_s": lifespan_s, "base_s": base_s, "fill": fill_hex},
            "ops": [{"op": "new", "preload": pre}] + ops, "fired": dict(fired)}


def _with_life(spec, lifespan_s):
    return dict(spec, common=dict(spec.get("common") or {}, lifespan_s=lifespan_s))


def _build(cfg, rows, trimmed):
    """Returns (subject, [(spec, indicator object)])."""
    life = cfg["lifespan_s"] if trimmed else None
    if cfg["kind"] == "indicator":
        spec = cfg["members"][0]
        ind = build(_with_life(spec, life) if trimmed else spec, rows)
        ind.calculate()
        return ind, [(spec, ind)]
    from datetime import timedelta

    inds = [build(m) for m in cfg["members"]]
    hx = Hexital("sim", mk_candles(rows), inds, timeframe_fill=bool(cfg.get("fill")),
                 candles_lifespan=timedelta(seconds=life) if trimmed else None)
    hx.calculate()
    return hx, list(zip(cfg["members"], inds))


def _ready(spec, reading):
    """Every output field non-None (Supertrend's long/short are mutually exclusive by definition)."""
    if reading is None:
        return False
    if isinstance(reading, dict):
        for k, v in reading.items():
            if spec["cls"] == "Supertrend" and k in ("long", "short"):
                continue
            if v is None:
                return False
    return True


def execute(trace, ctx=None):
    def body(run):
        cfg = trace["config"]
        life = cfg["lifespan_s"]
        label = "+".join(spec_label(m) for m in cfg["members"])
        tfs = [m["common"].get("timeframe") for m in cfg["members"]]
        delivered = []
        subject = twin = neighbour = None
        s_members = t_members = None
        armed = True
        ever_evicted = False
        compared_reading = False
        armed_compared = 0

        for i, op in enumerate(trace["ops"]):
            run.op_index = i
            kind = op["op"]
            if kind not in ("new", "append"):
                continue
            rows = op.get("preload") if kind == "new" else op["candles"]
            rows = rows or []
            if kind == "append":
                if subject is None:
                    continue
                if rows and delivered and rows[0][0] < delivered[-1][0]:
                    continue
            delivered.extend(rows)
            # ---- twin first (untrimmed, real code): it defines window and precondition
            before = None
            try:
                if kind == "new":
                    twin, t_members = _build(cfg, rows, False)
                else:
                    before = [len(ind.candles) for _s, ind in t_members]
                    twin.append(mk_candles(rows))
            except Exception:  # noqa: BLE001 - totality is C09's subject
                raise Discard("twin-raised")
            # ---- precondition of clause two, evaluated BEFORE the subject sees the append
            if armed:
                for mi, (spec, tind) in enumerate(t_members):
                    tc = tind.candles
                    if not tc:
                        continue
                    tts = [secs(c.timestamp) for c in tc]
                    keep = refmodels.trim(tts, life)
                    first_kept = keep[0] if keep else len(tc)
                    n0 = before[mi] if before is not None else 0
                    lo = max(n0 - 1, 0) if tind.timeframe else n0
                    need = lookback(spec)
                    for j in range(max(lo, first_kept), len(tc)):
                        r = j - first_kept
                        steady = j > 0 and _ready(spec, tc[j - 1].indicators.get(tind.name))
                        if steady:
                            run.stats["guard:r=%s" % (r if r < 10 else "10+")] += 1
                            ok = r >= need or first_kept == 0  # nothing evicted: whole history present
                        else:
                            ok = first_kept == 0
                        if not ok:
                            armed = False
                            run.stats["guard:disarmed_%s" % ("steady" if steady else "warmup")] += 1
                            break
                    if not armed:
                        break
            # ---- the subject
            try:
                if kind == "new":
                    subject, s_members = run.call(filled_size(rows, tfs) * 4, _build, cfg, rows, True)
                    if cfg.get("sharing_neighbour"):
                        # another owner in the same process with a SHORTER lifespan and another indicator, fed the very
                        # same Candle objects as the subject from now on: what it trims is still inside the subject's window
                        from datetime import timedelta

                        from hexital import OBV, TR, HighLowAverage

                        taken = {ind.name for _s, ind in s_members}
                        cls = next(c for c in (OBV, HighLowAverage, TR) if c().name not in taken)   # another NAME
                        neighbour = cls(candles=[], candles_lifespan=timedelta(seconds=max(life // 4, 0)))
                else:
                    objs = mk_candles(rows)
                    if neighbour is not None and objs:
                        try:
                            neighbour.append(objs)
                        except Exception:  # noqa: BLE001 - the neighbour is not the subject
                            pass
                    run.call(filled_size(delivered, tfs) * 4, subject.append, objs)
            except LibError as e:
                if not armed:
                    run.stats["guard:exception_while_disarmed"] += 1
                    break
                raise Violation("exception-with-lookback-retained", label, e.site, {"error": repr(e.exc)})
            # ---- O-A: exactly the window, O-B: same readings
            for (spec, sind), (_s2, tind) in zip(s_members, t_members):
                sc, tc = sind.candles, tind.candles
                tts = [secs(c.timestamp) for c in tc]
                keep = refmodels.trim(tts, life)
                want = [candle_core(tc[j]) for j in keep]
                got = [candle_core(c) for c in sc]
                if len(keep) < len(tc):
                    ever_evicted = True
                if [g[0] for g in got] != [w[0] for w in want]:
                    raise Violation("window", label, "timestamps",
                                    {"got_n": len(got), "want_n": len(want), "got_first": got[:1], "want_first": want[:1],
                                     "newest": tts[-1] if tts else None, "lifespan_s": life})
                if got != want:
                    raise Violation("window", label, "ohlcv", {})
                run.observe(kind, [g[0] for g in got][:3], len(got))
                if armed:
                    for k, j in enumerate(keep):
                        a = freeze(sc[k].indicators.get(sind.name))
                        b = freeze(tc[j].indicators.get(tind.name))
                        if a != b:
                            pos = "newest" if k == len(keep) - 1 else "older"
                            raise Violation("readings-vs-untrimmed", spec_label(spec), pos,
                                            {"retained_index": k, "of": len(keep), "trimmed": a, "untrimmed": b,
                                             "evicted": len(tc) - len(keep)})
                        if b is not None and len(keep) < len(tc):
                            compared_reading = True
                    armed_compared += 1
            run.state(label, armed, ever_evicted, min(len(s_members[0][1].candles), 4))
        if subject is None:
            raise Discard("no-new-op")
        run.stats["guard:armed_to_end" if armed else "guard:stood_down"] += 1
        if ever_evicted:
            run.stats["reach:runs_with_eviction"] += 1
        run.nontrivial = ever_evicted and compared_reading
    return run_property(ID, body, trace)


def simplify(trace):
    cfg = trace["config"]
    if len(cfg["members"]) > 1:
        for k in range(len(cfg["members"])):
            yield dict(trace, config=dict(cfg, members=cfg["members"][:k] + cfg["members"][k + 1:]))
    if cfg["kind"] == "hexital" and len(cfg["members"]) == 1:
        yield dict(trace, config=dict(cfg, kind="indicator"))
