"""C01 -- incremental appends give exactly the batch result (schedule independence).

Subject: one real standalone indicator per run (all 26 classes + Amorph over every pattern and
movement function), base or collapsing timeframe, fill on/off.  Oracle at every check point: the
batch twin (same spec over a fresh copy of everything delivered, one calculate()) must have exactly
the same candles, readings and helper readings.
"""
from __future__ import annotations

from .. import planlib, simclock, world
from ..catalogue import encode, build, mk_candles, sample_spec, spec_label
from ..subjects import Neighbours, sample_neighbours
from ..core import Discard, LibError, Violation, filled_size, run_property
from ..relational import any_reading, batch_twin, compare_candles
from ..util import snap_candles, sub_rng, tf_seconds

ID = "C01"
LEVEL = "exploration"
SUBBATCHES = ("calm", "faulty")
REFERENCE_MODELS = ["batch twin: the same real indicator over all delivered candles, one calculate()"]
RULE = ("seeded world loop (exchange, feed faults, chunked delivery, preload, calculate-before-append) executed "
        "on one real indicator; at check points it is compared exactly with a batch twin; non-trivial = a check "
        "point compared at least one non-None reading and (a feed fault fired or the stream came in at least two "
        "non-empty appends); distinct = distinct digests of (trace, observable state sequence)")


def plan(seed, subbatch):
    cfg = sub_rng(seed, "config")
    base_s, tf, tf_s = planlib.base_and_tf(cfg, 1.0, 20.0, p_none=0.4)
    spec = sample_spec(cfg)
    if tf:
        spec["common"]["timeframe"] = tf
        if cfg.random() < 0.5:
            spec["common"]["timeframe_fill"] = True
    if sub_rng(seed, "ctype").random() < 0.15:
        spec["common"]["candlestick_type"] = "HA"      # a parameter choice like any other
    n = planlib.pick_n(cfg, (1, 12), (5, 60), (20, 250))
    long_history = cfg.random() < (0.04 if planlib.thorough() else 0.012)
    if long_history:
        # a rare long history (more than a thousand candles) on the base timeframe
        n = cfg.randint(1000, 1500)
        spec["common"].pop("timeframe", None)
        spec["common"].pop("timeframe_fill", None)
        tf, tf_s = None, None
    if subbatch == "calm":
        faults, burst, p_empty = {}, None, (0.05 if cfg.random() < 0.3 else 0.0)
    else:
        faults, burst, p_empty, _ = planlib.swarm_faults(cfg, base_s, tf_s, halt_buckets=(5, 40))
    start = world.pick_start(cfg, base_s, tf_s)
    env = planlib.dst_env(sub_rng(seed, "env"), n, base_s)
    if env:
        start = env[1]     # the stream straddles an offset change of the zone the process runs in
    regimes = None
    if subbatch == "faulty" and cfg.random() < 0.35:
        regimes = world.REGIMES_NORMAL + cfg.sample(world.REGIMES_DEGENERATE, 2)
    pre, ops, fired, rows = planlib.stream_and_schedule(
        seed, subbatch, n, base_s, start, faults, burst, p_empty,
        max_span_s=(800 * tf_s if tf else None), regimes=regimes, regime_len=(1, 15))
    every = 1 if len(ops) <= 12 else cfg.choice((5, 10))
    if long_history:
        every = 10 ** 9
        fired["long_history_runs"] += 1
    out = [{"op": "new", "preload": pre, "calculate": cfg.random() < 0.5}]
    for i, op in enumerate(ops):
        if op["op"] == "append" and len(op["candles"]) == 1 and cfg.random() < 0.3:
            op["bare"] = True
        elif op["op"] == "append" and len(op["candles"]) > 1 and sub_rng(seed, "forms-%d" % i).random() < 0.15:
            op["enc"] = sub_rng(seed, "forms-k-%d" % i).choice(("dicts", "lists", "lists_tsfirst", "lists_mixed"))
        out.append(op)
        if (i + 1) % every == 0:
            out.append({"op": "check"})
    if out[-1]["op"] != "check":
        out.append({"op": "check"})
    offset = cfg.choice((None, None, None, None, 0, 60, -210))
    neighbours = sample_neighbours(sub_rng(seed, "neighbours"), spec["common"].get("timeframe"), offset)
    return {"format": 1, "property": ID, "seed": seed, "subbatch": subbatch,
            "config": {"neighbours": neighbours, "process_tz": env[0] if env else None, "spec": spec, "base_s": base_s,
                       "utc_offset_min": offset},
            "ops": out, "fired": dict(fired)}


def execute(trace, ctx=None):
    from .. import catalogue

    catalogue.TZ_OFFSET_MIN = trace["config"].get("utc_offset_min")
    try:
        return _execute(trace)
    finally:
        catalogue.TZ_OFFSET_MIN = None


def _execute(trace):
    def body(run):
        spec = trace["config"]["spec"]
        label = spec_label(spec)
        tfs = [spec["common"].get("timeframe")]
        delivered = []
        subject = None
        n_appends = 0
        calculated = False
        compared_reading = False

        def twin_raises():
            try:
                batch_twin(spec, delivered)
            except Exception as exc:  # noqa: BLE001
                return type(exc).__name__
            return None

        for i, op in enumerate(trace["ops"]):
            run.op_index = i
            kind = op["op"]
            live_rows = (op.get("preload") if kind == "new" else op.get("candles") if kind == "append" else None) or []
            if live_rows:
                # the simulated wall clock: the live subject handles every arrival one second after its newest
                # candle; the batch twin is built long after the fact (simclock.DEFAULT_NOW).  The library must
                # not care (at the pinned commit it never reads the clock).
                simclock.set_now(live_rows[-1][0] + 1)
            try:
                if kind == "new":
                    rows = op.get("preload") or []
                    delivered.extend(rows)
                    neigh = Neighbours(trace["config"].get("neighbours"), rows)     # built BEFORE the subject
                    if neigh.items:
                        run.stats["reach:neighbour_objects_in_process"] += len(neigh.items)
                    subject = run.call(filled_size(rows, tfs), build, spec, rows)
                    if op.get("calculate"):
                        run.call(filled_size(rows, tfs) * 2, subject.calculate)
                        calculated = True
                elif subject is None:
                    continue
                elif kind == "append":
                    rows = op["candles"]
                    if rows and delivered and rows[0][0] < delivered[-1][0]:
                        run.stats["guard_skip:append_order"] += 1
                        continue
                    n_appends += 1 if rows else 0
                    delivered.extend(rows)
                    neigh.feed(rows)
                    payload = mk_candles(rows) if not op.get("enc") else encode(rows, op["enc"])
                    if len(rows) == 1 and op.get("bare") and not op.get("enc"):
                        payload = payload[0]   # a single candle handed over as a bare Candle object
                    run.call(filled_size(delivered, tfs) * 2, subject.append, payload)
                    calculated = True
                elif kind == "check":
                    if not calculated:
                        run.call(filled_size(delivered, tfs) * 2, subject.calculate)
                        calculated = True
                    live_now = simclock.NOW
                    simclock.set_now(simclock.DEFAULT_NOW)
                    try:
                        twin = batch_twin(spec, delivered)
                    except Exception as exc:  # noqa: BLE001
                        raise Violation("only-batch-raises", label, type(exc).__name__,
                                        {"error": repr(exc)})
                    finally:
                        simclock.set_now(live_now)
                    d = compare_candles(subject.candles, twin.candles, twin.name)
                    if d is not None:
                        j, field, g, w = d
                        raise Violation("batch-twin", label, field,
                                        {"index": j, "live": g, "batch": w, "n": len(twin.candles)})
                    if any_reading(twin.candles, twin.name):
                        compared_reading = True
                    run.stats["checks"] += 1
                    run.observe("check", snap_candles(subject.candles))
                    run.state(label, spec["common"].get("timeframe") is not None,
                              bool(spec["common"].get("timeframe_fill")), compared_reading)
            except LibError as e:
                t = twin_raises()
                if t == e.type:
                    raise Discard("exception-on-both-sides:" + e.type)
                raise Violation("only-live-raises", label, e.site,
                                {"error": repr(e.exc), "op": kind, "batch": t})
        if subject is None:
            raise Discard("no-new-op")
        run.nontrivial = compared_reading and (n_appends >= 2 or planlib.feed_fired(trace.get("fired")))
    return run_property(ID, body, trace)


def simplify(trace):
    cfg = trace["config"]
    spec = cfg["spec"]
    common = spec.get("common") or {}
    for key in ("timeframe_fill", "round_value", "timeframe"):
        if key in common:
            c2 = {k: v for k, v in common.items() if k != key}
            if key == "timeframe":
                c2.pop("timeframe_fill", None)
            yield dict(trace, config=dict(cfg, spec=dict(spec, common=c2)))
    params = spec.get("params") or {}
    for k, v in params.items():
        if isinstance(v, int) and not isinstance(v, bool) and v > 2 and k != "count_value":
            for nv in (2, v // 2, v - 1):
                if 2 <= nv < v:
                    p2 = dict(params, **{k: nv})
                    if spec["cls"] == "MACD" and p2["fast_period"] == p2["slow_period"]:
                        continue
                    yield dict(trace, config=dict(cfg, spec=dict(spec, params=p2)))
