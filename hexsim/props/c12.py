"""C12 -- gap filling yields a contiguous series of flat, zero-volume candles.

Subject: real CandleManager(timeframe_fill=True) by four routes, plus a real no-fill twin under the
same schedule.  Oracle: reference resampler + reference fill, contiguity, real buckets == no-fill
twin, after every operation.  Faults: drop, halt (many buckets), several gaps, gaps that open at the
end of one append and close at the start of the next, dup, burst, chunking, preload, re-collapse.
"""
from __future__ import annotations

from .. import planlib, refmodels, world
from ..core import Discard, LibError, Violation, run_property
from ..catalogue import mk_candles
from ..subjects import ROUTES, build_route
from ..util import candle_core, snap_cores, sub_rng, tf_seconds

ID = "C12"
LEVEL = "exploration"
SUBBATCHES = ("calm", "faulty")
REFERENCE_MODELS = ["resampler (refmodels.resample)", "gap fill (refmodels.fill)"]
RULE = ("seeded world loop (exchange, feed faults incl. drops and multi-bucket halts, chunked delivery, "
        "re-collapse) executed on a real CandleManager(timeframe_fill=True) via four routes with a real "
        "no-fill twin; non-trivial = at least one candle was inserted by gap filling at a check point and "
        "the stream came in at least two non-empty appends; distinct = distinct observable-state digests")


def plan(seed, subbatch):
    cfg = sub_rng(seed, "config")
    base_s, tf, tf_s = planlib.base_and_tf(cfg, 1.0, 12.0, allow_finer=False)
    n = planlib.pick_n(cfg, (2, 12), (5, 50), (20, 160))
    route = cfg.choice(ROUTES)
    mega = False
    # gaps are the point of the property: the calm batch has drops only (regular grid otherwise)
    if subbatch == "calm":
        per_bucket = max(1, tf_s // base_s)
        faults = {"drop": {"p": 0.08, "max": max(2, 3 * per_bucket)}}
        burst, p_empty, recoll = None, 0.0, 0
    else:
        faults, burst, p_empty, kinds = planlib.swarm_faults(
            cfg, base_s, tf_s, halt_buckets=(5, 40), force=[cfg.choice(("drop", "halt"))])
        recoll = cfg.randint(1, 3) if cfg.random() < 0.4 else 0
        if cfg.random() < (0.02 if planlib.thorough() else 0.004):
            # a rare outage of tens of thousands of buckets (weeks of one-minute candles) in a tiny stream
            per_bucket = max(1, tf_s // base_s)
            n = cfg.randint(3, 6)
            faults = {"halt": {"p": 0.3, "min": 21000 * per_bucket, "max": 45000 * per_bucket}}
            mega = True
        elif cfg.random() < 0.12:
            # one very long outage in a short stream: several hundred inserted candles
            per_bucket = max(1, tf_s // base_s)
            n = cfg.randint(4, 25)
            faults = {"halt": {"p": 0.12, "min": 300 * per_bucket, "max": 1200 * per_bucket}}
    giant = subbatch == "faulty" and cfg.random() < (0.01 if planlib.thorough() else 0.002)
    if giant:
        # tens of thousands of buckets delivered in ONE pass (back-fill at construction) with gaps early on
        n = cfg.randint(20500, 23000)
        tf = world.pick_timeframe(cfg, base_s, 1.0, 1.0, allow_finer=False)
        tf_s = tf_seconds(tf)
        faults = {"drop": {"p": 0.0005, "max": 4}}
        burst, p_empty, recoll, mega = None, 0.0, 0, True
    start = world.pick_start(cfg, base_s, tf_s)
    env = planlib.dst_env(sub_rng(seed, "env"), n, base_s)
    if env:
        start = env[1]     # the stream straddles an offset change of the zone the process runs in
    op_rng = sub_rng(seed, "operator")
    extras = [(op_rng.random(), {"op": "recollapse", "times": op_rng.randint(1, 2)}) for _ in range(recoll)]
    regimes = None
    if subbatch == "faulty" and cfg.random() < 0.4:
        regimes = world.REGIMES_NORMAL + ["zerovol", "stall0", "stall"]
    pre, ops, fired, rows = planlib.stream_and_schedule(seed, subbatch, n, base_s, start, faults, burst,
                                                        p_empty, extras, max_span_s=(100000 if mega else 1500) * tf_s, regimes=regimes,
                                                        regime_len=(1, 12), preload=(n - 3 if giant else None),
                                                        style=("ones" if giant else None))
    if giant:
        fired["giant_batch_runs"] += 1
    lifespan = None
    if subbatch == "faulty" and cfg.random() < 0.3:
        # filling interacting with eviction: the expected series is the window of the filled reference
        lifespan = tf_s * cfg.randint(2, 30)
        if sub_rng(seed, "life-frac").random() < 0.4:
            lifespan += sub_rng(seed, "life-frac-k").randint(1, max(1, tf_s - 1))    # not a whole number of buckets
        fired["lifespan_configured"] += 1
        if route == "hexital_member":
            route = "hexital_level"   # member managers derived from trimmed base candles: known finding C08
    ctype = None
    if not (mega or giant) and sub_rng(seed, "ctype").random() < 0.2:
        # filling with a candlestick type selected: fill candles are flat at the previous candle's RAW close and
        # the whole filled series is then converted, whatever the schedule
        ctype = "HA"
        fired["heikin_ashi_configured"] += 1
    if ctype and sub_rng(seed, "zero-close").random() < 0.35:
        # one candle closing at exactly 0.0 (a legal float): the fill after it is flat at 0, whatever the schedule
        zr = sub_rng(seed, "zero-close-at")
        cands = [(op, j) for op in ([{"candles": pre}] + ops) for j in range(len(op.get("candles") or []))]
        if cands:
            op_, j = zr.choice(cands)
            r = op_["candles"][j]
            op_["candles"][j] = [r[0], r[1], r[2], 0.0, 0.0, r[5]]
            fired["candle_closing_at_zero"] += 1
    return {"format": 1, "property": ID, "seed": seed, "subbatch": subbatch,
            "config": {"tf_as_enum": sub_rng(seed, "tf-enum").random() < 0.25, "sim_now": planlib.pick_sim_now(sub_rng(seed, "sim-now"), rows), "process_tz": env[0] if env else None, "route": route, "tf": tf, "base_s": base_s, "lifespan_s": lifespan, "ctype": ctype,
                       "utc_offset_min": cfg.choice((None, None, None, None, 0, 60, 345))},
            "ops": [{"op": "new", "preload": pre}] + ops, "fired": dict(fired)}


def execute(trace, ctx=None):
    from .. import catalogue, subjects

    catalogue.TZ_OFFSET_MIN = trace["config"].get("utc_offset_min")
    subjects.TF_AS_ENUM = bool(trace["config"].get("tf_as_enum"))
    try:
        return _execute(trace)
    finally:
        catalogue.TZ_OFFSET_MIN = None
        subjects.TF_AS_ENUM = False


def _execute(trace):
    def body(run):
        cfg = trace["config"]
        tf, route = cfg["tf"], cfg["route"]
        tf_s = tf_seconds(tf)
        lifespan = cfg.get("lifespan_s")
        ctype = cfg.get("ctype")

        def cores(candles):
            """(ts, o, h, l, c, v) per candle; with a candlestick type the RAW values (kept in clean_values)."""
            if not ctype:
                return snap_cores(candles)
            out = []
            for c in candles:
                cv = c.clean_values or {}
                t = candle_core(c)
                out.append((t[0],) + tuple(cv.get(k, getattr(c, k)) for k in ("open", "high", "low", "close", "volume")))
            return out

        delivered = []
        subject = manager = view = None
        twin = tmanager = tview = None
        n_appends = 0
        inserted_seen = 0
        ha_armed = True
        for i, op in enumerate(trace["ops"]):
            run.op_index = i
            kind = op["op"]
            try:
                if kind == "new":
                    rows = op.get("preload") or []
                    delivered.extend(rows)
                    span_n = (rows[-1][0] - rows[0][0]) // tf_s if rows else 0
                    subject, manager, view = run.call(len(rows) + span_n, build_route, route, tf, rows, True, lifespan, ctype)
                    twin, tmanager, tview = build_route(route, tf, rows, False, lifespan, ctype)
                elif subject is None:
                    continue
                elif kind == "append":
                    rows = op["candles"]
                    if rows and delivered and rows[0][0] < delivered[-1][0]:
                        run.stats["guard_skip:append_order"] += 1
                        continue
                    n_appends += 1 if rows else 0
                    delivered.extend(rows)
                    span_n = (delivered[-1][0] - delivered[0][0]) // tf_s if delivered else 0
                    run.call(len(delivered) + span_n, subject.append, mk_candles(rows))
                    twin.append(mk_candles(rows))
                elif kind == "recollapse":
                    for _ in range(op.get("times", 1)):
                        span_n = (delivered[-1][0] - delivered[0][0]) // tf_s if delivered else 0
                        run.call(len(delivered) + span_n, manager.collapse_candles)
                        tmanager.collapse_candles()
                else:
                    continue
            except LibError as e:
                raise Violation("exception", route, e.site, {"error": repr(e.exc), "op": kind})
            got = cores(view())
            buckets = refmodels.resample(delivered, tf_s)
            want_rows, flags = refmodels.fill(buckets, tf_s)
            want = [tuple(r) for r in want_rows]
            want_full, keep = want, None
            if lifespan is not None and want:
                keep = refmodels.trim([w[0] for w in want], lifespan)
                want = [want[k] for k in keep]
                flags = [flags[k] for k in keep]
                if len(keep) < 2:
                    # a window of one candle: a merge into it is re-converted without its (evicted) predecessor,
                    # from then on the converted series is off the whole-stream recurrence (C11's guard)
                    ha_armed = False
            run.observe(kind, got)
            for x in range(len(got) - 1):
                if got[x + 1][0] - got[x][0] != tf_s:
                    raise Violation("contiguity", route, "step", {"index": x, "a": got[x], "b": got[x + 1]})
            if got != want:
                j = next((x for x in range(min(len(got), len(want))) if got[x] != want[x]),
                         min(len(got), len(want)))
                g = got[j] if j < len(got) else None
                w = want[j] if j < len(want) else None
                if g is None or w is None:
                    what = "count"
                else:
                    what = ("inserted" if flags[j] else "real") + ":" + ",".join(
                        n for n, a, b in zip("tohlcv", g, w) if a != b)
                raise Violation("fill-reference", route, what,
                                {"index": j, "got": g, "want": w, "n_got": len(got), "n_want": len(want)})
            real = [g for g, f in zip(got, flags) if not f]
            nofill = cores(tview())
            if real != nofill:
                raise Violation("real-buckets-vs-nofill-twin", route, "differ",
                                {"n_real": len(real), "n_twin": len(nofill)})
            if ctype and want and ha_armed:
                # the series indicators see: the Heikin-Ashi recurrence over the WHOLE filled raw series
                # (of which a lifespan retains a suffix)
                shown = snap_cores(view())
                ha = [tuple(r) for r in refmodels.heikin_ashi(want_full)]
                if keep is not None:
                    ha = [ha[k] for k in keep]
                if len(shown) == len(ha):
                    for j, (a, b) in enumerate(zip(shown, ha)):
                        if a[0] != b[0] or any(abs(x - y) > 1e-9 * max(1.0, abs(y)) for x, y in zip(a[1:5], b[1:5])):
                            raise Violation("converted-filled-series", route, "inserted" if flags[j] else "real",
                                            {"index": j, "got": a, "want": b})
                run.stats["reach:heikin_ashi_filled_series_checked"] += 1
            ins = sum(flags)
            inserted_seen = max(inserted_seen, ins)
            run.state(kind, min(ins, 3), min(len(buckets), 3), flags[-2] if len(flags) > 1 else None)
        if subject is None:
            raise Discard("no-new-op")
        run.stats["reach:inserted_candles"] += inserted_seen
        if inserted_seen >= 20:
            run.stats["reach:long_fill_run>=20"] += 1
        gaps = sum(1 for a, b in zip(flags, flags[1:]) if b and not a) if delivered else 0
        if gaps >= 2:
            run.stats["reach:several_separate_gaps"] += 1
        run.nontrivial = inserted_seen > 0 and n_appends >= 2
    return run_property(ID, body, trace)


def simplify(trace):
    cfg = trace["config"]
    if cfg["route"] != "manager":
        t = dict(trace)
        t["config"] = dict(cfg, route="manager")
        yield t
