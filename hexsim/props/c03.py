"""C03 -- timeframe collapsing equals right-closed, right-labelled OHLCV resampling.

Subject: real CandleManager, reached by four routes (manager / Indicator / Hexital member /
Hexital-level timeframe).  Oracle: reference resampler over everything delivered so far, compared
after every operation.  Faults: chunking, preload, drop, halt, dup, burst, off-grid, re-collapse.
"""
from __future__ import annotations

from .. import planlib, refmodels, world
from ..catalogue import encode, mk_candles
from ..subjects import ROUTES, Neighbours, build_route, sample_neighbours
from ..core import Discard, LibError, Violation, run_property
from ..util import snap_cores, sub_rng, tf_seconds

ID = "C03"
LEVEL = "exploration"
SUBBATCHES = ("calm", "faulty")
REFERENCE_MODELS = ["resampler (refmodels.resample)"]
RULE = ("runs are planned by the seeded world loop (exchange, feed faults, chunked delivery, repeated "
        "collapse passes) and executed on a real CandleManager via one of four routes; a run is "
        "non-trivial when the collapsed list was non-empty at a check point and (a feed fault fired or "
        "the stream was delivered in at least two non-empty appends); distinct = distinct "
        "digests of the observable state sequence")


def plan(seed, subbatch):
    cfg = sub_rng(seed, "config")
    base_s = cfg.choice(world.BASE_INTERVALS)
    tf = world.pick_timeframe(cfg, base_s, 1.0, 20.0)
    tf_s = tf_seconds(tf)
    n = cfg.choice((cfg.randint(1, 12), cfg.randint(5, 60), cfg.randint(20, 300)))
    route = cfg.choice(ROUTES)
    level = None
    if cfg.random() < 0.12:
        # two collapsing levels: a finer Hexital-level timeframe that divides the member's
        finer = [t for t in world.TIMEFRAMES if tf_s % tf_seconds(t) == 0 and base_s <= tf_seconds(t) < tf_s]
        if finer:
            route, level = "hexital_two_level", cfg.choice(finer)
    siblings = []
    if route in ("hexital_member", "hexital_two_level"):
        fam = sub_rng(seed, "family")
        if fam.random() < 0.35:
            # sibling members on another spelling of the SAME span, on a span differing by whole days, or on
            # an unrelated timeframe: each owns its manager; the manager under test sees the stream once
            for _ in range(fam.randint(1, 2)):
                s = fam.choice((world.equiv_spelling(tf), world.equiv_spelling(tf), world.day_shifted(tf, fam.randint(1, 2)),
                                world.pick_timeframe(fam, base_s, 1.0, 20.0, allow_finer=False)))
                if level and tf_seconds(s) % tf_seconds(level):
                    continue    # below a collapsing level only multiples of the level are meaningful members
                if s.upper() != tf.upper() and s.upper() != (level or "").upper() and s not in [x[0] for x in siblings]:
                    siblings.append([s, fam.random() < 0.5])
    faults = {}
    burst = None
    p_empty = 0.0
    recollapse = 0
    start_mode = None
    if subbatch == "faulty":
        kinds = [k for k in ("drop", "halt", "dup", "jitter", "offset", "burst", "empty", "recollapse")
                 if cfg.random() < 0.5]
        if "drop" in kinds:
            faults["drop"] = {"p": cfg.choice((0.02, 0.05, 0.1)),
                              "max": cfg.choice((1, 3, max(2, 3 * tf_s // base_s)))}
        if "halt" in kinds:
            per_bucket = max(1, tf_s // base_s)
            faults["halt"] = {"p": cfg.choice((0.01, 0.03)), "min": 3 * per_bucket,
                              "max": cfg.choice((10, 200)) * per_bucket}
        if "dup" in kinds:
            faults["dup"] = {"p": cfg.choice((0.03, 0.1)), "exact": cfg.choice((0.0, 0.3, 0.6))}
        if "jitter" in kinds:
            faults["jitter"] = {"p": cfg.choice((0.05, 0.3))}
        if "offset" in kinds and base_s > 1:
            faults["offset"] = cfg.randint(1, base_s - 1)
        if "burst" in kinds:
            burst = {"p": 0.08, "min": 5, "max": 60}
        if "empty" in kinds:
            p_empty = 0.08
        if "recollapse" in kinds:
            recollapse = cfg.randint(1, 4)
    start = world.pick_start(cfg, base_s, tf_s, start_mode)
    env = planlib.dst_env(sub_rng(seed, "env"), n, base_s)
    if env:
        start = env[1]     # the stream straddles an offset change of the zone the process runs in
    regimes = None
    if subbatch == "faulty" and cfg.random() < 0.4:
        regimes = world.REGIMES_NORMAL + ["zerovol", "stall0", "stall"]
    rows, fired = world.make_stream(sub_rng(seed, "exchange"), n, base_s, start, faults, regimes=regimes,
                                    regime_len=(1, 12))
    if sub_rng(seed, "fractional-volume").random() < 0.15:
        # volumes in quarters (exact in binary): conserved like whole numbers
        for i, r in enumerate(rows):
            r[5] = r[5] + (i % 4) * 0.25
        fired["fractional_volumes"] += 1
    feed = sub_rng(seed, "feed")
    k = feed.choice((0, 0, 1, 2, feed.randint(0, len(rows)), len(rows) // 2, len(rows)))
    k = min(k, len(rows))
    style = "ones" if (subbatch == "calm" and feed.random() < 0.3) else None
    sizes, f2 = world.make_chunks(feed, len(rows) - k, style, p_empty, burst)
    fired.update(f2)
    extras = []
    op_rng = sub_rng(seed, "operator")
    for _ in range(recollapse):
        extras.append((op_rng.random(), {"op": "recollapse", "times": op_rng.randint(1, 3)}))
    ops = [{"op": "new", "preload": [list(r) for r in rows[:k]]}]
    ops += world.schedule(feed, rows[k:], sizes, extras)
    fired["preload_%s" % ("none" if k == 0 else "one" if k == 1 else "all" if k == len(rows) else "some")] += 1
    if subbatch == "faulty":
        form = sub_rng(seed, "input-form")
        for op in ops:
            if op["op"] != "append" or not op.get("candles"):
                continue
            # the same candles as dicts or lists; and now and then a whole chunk inside ONE second (legal duplicates)
            op["enc"] = form.choice(("candles", "candles", "candles", "dicts", "lists", "lists_mixed"))
            if len(op["candles"]) >= 2 and form.random() < 0.06:
                t0 = op["candles"][0][0]
                op["candles"] = [[t0] + list(r[1:]) for r in op["candles"]]
                fired["chunk_within_one_second"] += 1
    lifespan = None
    if route in ("manager", "indicator", "hexital_level") and sub_rng(seed, "lifespan").random() < 0.1:
        # a lifespan next to the collapsing timeframe: the surviving buckets are still the full resampled ones
        # (not for a Hexital member: its manager is derived from trimmed base candles, the known C08 finding)
        lifespan = tf_s * sub_rng(seed, "lifespan-k").randint(2, 30)
        if sub_rng(seed, "life-frac").random() < 0.4:
            lifespan += sub_rng(seed, "life-frac-k").randint(1, max(1, tf_s - 1))    # not a whole number of buckets
        fired["lifespan_configured"] += 1
    offset = cfg.choice((None, None, None, 60, 330, -210, 345))
    neighbours = sample_neighbours(sub_rng(seed, "neighbours"), tf, offset)
    return {"format": 1, "property": ID, "seed": seed, "subbatch": subbatch,
            "config": {"sim_now": planlib.pick_sim_now(sub_rng(seed, "sim-now"), rows), "neighbours": neighbours, "lifespan_s": lifespan, "process_tz": env[0] if env else None, "route": route, "tf": tf, "base_s": base_s, "level_tf": level, "siblings": siblings,
                       # timezone-aware streams (fixed offsets that do not divide the larger timeframes)
                       "utc_offset_min": offset},
            "ops": ops, "fired": dict(fired)}


def execute(trace, ctx=None):
    from .. import catalogue

    catalogue.TZ_OFFSET_MIN = trace["config"].get("utc_offset_min")
    try:
        return _execute(trace)
    finally:
        catalogue.TZ_OFFSET_MIN = None


def _execute(trace):
    def body(run):
        cfg = trace["config"]
        tf = cfg["tf"]
        tf_s = tf_seconds(tf)
        route = cfg["route"]
        delivered = []
        subject = manager = view = None
        n_appends = 0
        for i, op in enumerate(trace["ops"]):
            run.op_index = i
            kind = op["op"]
            try:
                if kind == "new":
                    rows = op.get("preload") or []
                    delivered.extend(rows)
                    neigh = Neighbours(cfg.get("neighbours"), rows)     # built BEFORE the subject
                    if neigh.items:
                        run.stats["reach:neighbour_objects_in_process"] += len(neigh.items)
                    subject, manager, view = run.call(len(rows), build_route, route, tf, rows, False, cfg.get("lifespan_s"), None, None,
                                                      cfg.get("level_tf"), cfg.get("siblings"))
                    if cfg.get("siblings"):
                        run.stats["reach:hexital_with_sibling_timeframe_members"] += 1
                elif subject is None:
                    continue
                elif kind == "append":
                    rows = op["candles"]
                    if rows and delivered and rows[0][0] < delivered[-1][0]:
                        run.stats["guard_skip:append_order"] += 1
                        continue
                    n_appends += 1 if rows else 0
                    delivered.extend(rows)
                    neigh.feed(rows)
                    run.call(len(delivered), subject.append, encode(rows, op.get("enc") or "candles") if rows else [])
                elif kind == "recollapse":
                    for _ in range(op.get("times", 1)):
                        run.call(len(delivered), manager.collapse_candles)
                    run.stats["recollapse_calls"] += op.get("times", 1)
                else:
                    continue
            except LibError as e:
                raise Violation("exception", route, e.site, {"error": repr(e.exc), "op": kind})
            got = snap_cores(view())
            want = [tuple(r) for r in refmodels.resample(delivered, tf_s)]
            lifespan = cfg.get("lifespan_s")
            if lifespan is not None and want:
                want = [want[k] for k in refmodels.trim([w[0] for w in want], lifespan)]
            run.observe(kind, got)
            if got != want:
                j = next((x for x in range(min(len(got), len(want))) if got[x] != want[x]),
                         min(len(got), len(want)))
                g = got[j] if j < len(got) else None
                w = want[j] if j < len(want) else None
                if g is None or w is None:
                    what = "count"
                elif g[0] != w[0]:
                    what = "label"
                else:
                    what = "ohlcv:" + ",".join(n for n, a, b in zip("ohlcv", g[1:], w[1:]) if a != b)
                raise Violation("resample", route, what,
                                {"index": j, "got": g, "want": w, "n_got": len(got), "n_want": len(want)})
            # implied, but they localise a failure
            if lifespan is None and sum(c[5] for c in got) != sum(r[5] for r in delivered):
                raise Violation("volume-conservation", route, "sum", {})
            if any(got[x][0] >= got[x + 1][0] for x in range(len(got) - 1)):
                raise Violation("strictly-increasing", route, "timestamps", {})
            if got:
                open_n = sum(1 for r in delivered if refmodels.bucket_label(r[0], tf_s) == got[-1][0])
                run.state(kind, min(open_n, 3), min(len(got), 3))
        if subject is None:
            raise Discard("no-new-op")
        sit = refmodels.classify_situations(delivered, tf_s)
        for k, v in sit.items():
            run.stats["reach:" + k] += v
        fired = any(v for k, v in (trace.get("fired") or {}).items()
                    if k.split("_")[0] in ("drop", "halt", "dup", "jitter", "offgrid", "burst"))
        run.nontrivial = bool(delivered) and (fired or n_appends >= 2)
    return run_property(ID, body, trace)


def simplify(trace):
    """Config simplifications tried by the shrinker (each must keep the trace well-formed)."""
    cfg = trace["config"]
    if cfg["route"] != "manager":
        t = dict(trace)
        t["config"] = dict(cfg, route="manager")
        yield t
    if cfg.get("siblings"):
        for k in range(len(cfg["siblings"])):
            yield dict(trace, config=dict(cfg, siblings=cfg["siblings"][:k] + cfg["siblings"][k + 1:]))
