"""C09 -- calculation is total: no exception, only finite numbers, no gaps after warm-up.

The property names feed fault conditions (stalled candles, zero-volume candles, the flat zero-volume
candles that gap filling inserts after an outage, one-sided runs); the failures need those faults
PLACED and SIZED: flat or one-sided from the very first candle (zero seeds), a flat window of at
least `period` candles after activity, `period` consecutive zero-volume candles, a stall long enough
for a short EMA to round to exactly zero.  The simulator samples fault placement and duration, runs
the live (chunked) path, counts reach probes and detects hangs with the step budget.
"""
from __future__ import annotations

import math

from hexital import Hexital

from .. import planlib, world
from ..catalogue import CLASSES, DICT_VALUED, build, mk_candles, sample_params, spec_label
from ..core import Discard, LibError, Violation, run_property
from ..util import sub_rng, tf_seconds

ID = "C09"
LEVEL = "exploration"
SUBBATCHES = ("calm", "faulty")
REFERENCE_MODELS = ["none: invariants on the stored values (finite, no gap) and on escaping exceptions"]
RULE = ("seeded world loop with degenerate market regimes (stall / stall with zero volume / zero-volume session / "
        "strictly one-sided) of sampled placement and duration, outages with gap filling, price scales 1e-2..1e6, "
        "chunked delivery, on every indicator class and on chained inputs; non-trivial = at least one output field "
        "produced a value and (a degenerate regime, an outage or a fill candle occurred, or the stream came in at "
        "least two non-empty appends); distinct = distinct digests of (trace, stored readings at check points)")

PRODUCERS = [
    ({"cls": "ROC", "params": {"period": 2}, "common": {}}, "ROC"),
    ({"cls": "ROC", "params": {"period": 5}, "common": {}}, "ROC"),
    ({"cls": "MACD", "params": {"fast_period": 2, "slow_period": 4, "signal_period": 2}, "common": {}}, "MACD_2_4_2.histogram"),
    ({"cls": "MACD", "params": {"fast_period": 3, "slow_period": 6, "signal_period": 3}, "common": {}}, "MACD_3_6_3.MACD"),
    ({"cls": "OBV", "params": {}, "common": {}}, "OBV"),
]
CONSUMERS = ["SMA", "EMA", "WMA", "RMA", "HMA", "KC", "MACD", "RSI", "StandardDeviation", "BBANDS",
             "StandardDeviationThreshold", "TSI", "ROC"]
SCALES = [0.01, 1.0, 100.0, 100.0, 10000.0, 1000000.0]


def plan(seed, subbatch):
    cfg = sub_rng(seed, "config")
    base_s, tf, tf_s = planlib.base_and_tf(cfg, 1.0, 6.0, p_none=0.6, allow_finer=False)
    chained = cfg.random() < 0.25
    small = cfg.random() < 0.6
    if chained:
        cls = cfg.choice(CONSUMERS)
        prod, pname = cfg.choice(PRODUCERS)
        params = sample_params(cfg, cls, max_period=4 if small else 20)
        params["input_value"] = pname
        spec = {"cls": cls, "params": params, "common": {}}
        config = {"kind": "chain", "producer": prod, "spec": spec,
                  # the same class and parameters a second time on the plain close, told apart by a name suffix
                  "sibling": sub_rng(seed, "sibling").random() < 0.25}
    elif cfg.random() < 0.12:
        # the pattern / movement wrappers are shipped indicators too
        from ..catalogue import sample_spec
        spec = sample_spec(cfg, "Amorph")
        spec["common"] = {}
        if "indicator" in spec["params"] and sub_rng(seed, "volume-input").random() < 0.3:
            spec["params"]["indicator"] = "volume"      # a series that is exactly 0 on zero-volume and fill candles
        config = {"kind": "indicator", "spec": spec}
        cls = "Amorph"
    else:
        cls = cfg.choice(CLASSES)
        params = sample_params(cfg, cls, max_period=4 if small else 20)
        if not small and cfg.random() < 0.3:
            params = {k: v for k, v in params.items() if "period" not in k and k not in ("smoothing_k",)}  # defaults
            if cls == "Counter":
                params = sample_params(cfg, cls)
        spec = {"cls": cls, "params": params, "common": {}}
        config = {"kind": "indicator", "spec": spec}
    spec = config["spec"]
    if cfg.random() < 0.1 and config["kind"] == "indicator":
        spec["common"]["name_suffix"] = cfg.choice(("x", "1.5", "v1.2"))   # legal naming option
    fill = False
    if tf:
        spec["common"]["timeframe"] = tf
        fill = cfg.random() < 0.6
        if fill:
            spec["common"]["timeframe_fill"] = True
        if chained:
            config["producer"] = dict(config["producer"], common={"timeframe": tf})
            # the producer's name carries the timeframe suffix
            head, _, field = spec["params"]["input_value"].partition(".")
            spec["params"]["input_value"] = f"{head}_{tf}" + (f".{field}" if field else "")
    config["fill"] = fill
    if config["kind"] == "indicator" and sub_rng(seed, "round").random() < 0.2:
        spec["common"]["round_value"] = sub_rng(seed, "round-k").choice((0, 0, 1, 2, 6))    # coarse / fine rounding of the output
    if tf and config["kind"] == "indicator" and sub_rng(seed, "companion").random() < 0.12:
        # the indicator as a member of a Hexital next to another member on a coarser multiple of its timeframe
        # (both timeframes new to the Hexital, the finer one first): appends must stay total for every member
        config["companion_tf"] = f"{tf[0]}{int(tf[1:]) * sub_rng(seed, 'companion-k').choice((2, 2, 3, 4))}"
    if config["kind"] == "indicator" and sub_rng(seed, "ctype").random() < 0.12:
        spec["common"]["candlestick_type"] = "HA"
    config["base_s"] = base_s
    config["utc_offset_min"] = cfg.choice((None, None, None, None, 0, 60, 330))   # timezone-aware streams
    n = cfg.choice((cfg.randint(2, 30), cfg.randint(20, 150), cfg.randint(100, 600)))
    scale = cfg.choice(SCALES)
    faults, burst = {}, None
    regimes, regime_len, first = None, (3, 40), None
    if subbatch == "faulty":
        degenerate = cfg.sample(world.REGIMES_DEGENERATE, cfg.randint(1, 3))
        regimes = degenerate * 2 + cfg.sample(world.REGIMES_NORMAL, cfg.randint(1, 3))
        regime_len = cfg.choice(((1, 8), (2, 40), (10, 120), (50, 400)))
        if cfg.random() < 0.35:
            first = cfg.choice(degenerate)
        if tf and cfg.random() < 0.6:
            per_bucket = max(1, tf_s // base_s)
            faults["halt"] = {"p": cfg.choice((0.01, 0.03)), "min": 2 * per_bucket,
                              "max": cfg.choice((5, 30, 60)) * per_bucket}
        if cfg.random() < 0.3:
            faults["drop"] = {"p": 0.05, "max": 3}
        if cfg.random() < 0.3:
            burst = {"p": 0.05, "min": 5, "max": 80}
    mega = False
    if subbatch == "faulty" and tf and fill and cfg.random() < (0.03 if planlib.thorough() else 0.006):
        # a rare outage of tens of thousands of buckets (the library inserts that many fill candles)
        mega = True
        per_bucket = max(1, tf_s // base_s)
        n = cfg.randint(8, 16)
        faults = {"halt": {"p": 0.12, "min": 21000 * per_bucket, "max": 40000 * per_bucket}}
        burst = None
    start = world.pick_start(cfg, base_s, tf_s)
    pre, ops, fired, rows = planlib.stream_and_schedule(
        seed, subbatch, n, base_s, start, faults, burst, 0.0, regimes=regimes, regime_len=regime_len,
        scale=scale, first_regime=first, float_volume=cfg.random() < 0.2,
        max_span_s=((100000 if mega else 700) * tf_s if tf else None))
    if mega:
        fired["mega_outage_runs"] += 1
    fired["scale_%g" % scale] += 1
    every = 1 if len(ops) <= 40 else cfg.choice((7, 13))
    out = [{"op": "new", "preload": pre}]
    for i, op in enumerate(ops):
        out.append(op)
        if (i + 1) % every == 0:
            out.append({"op": "check"})
    if out[-1]["op"] != "check":
        out.append({"op": "check"})
    config["sim_now"] = planlib.pick_sim_now(sub_rng(seed, "sim-now"), rows)
    return {"format": 1, "property": ID, "seed": seed, "subbatch": subbatch, "config": config,
            "ops": out, "fired": dict(fired)}


def _build(cfg, rows):
    if cfg["kind"] == "indicator" and cfg.get("companion_tf"):
        ind = build(cfg["spec"])
        mate = build({"cls": "EMA", "params": {"period": 2}, "common": {"timeframe": cfg["companion_tf"]}})
        hx = Hexital("sim", mk_candles(rows), [ind, mate], timeframe_fill=cfg.get("fill", False))
        return hx, ind
    if cfg["kind"] == "indicator":
        ind = build(cfg["spec"], rows)
        return ind, ind
    prod = build(cfg["producer"])
    cons = build(cfg["spec"])
    members = [prod, cons]
    if cfg.get("sibling"):
        sp = cfg["spec"]
        sib = build(dict(sp, params={k: v for k, v in sp["params"].items() if k != "input_value"},
                         common=dict(sp["common"], name_suffix="b")))
        members = [prod, sib, cons]
    hx = Hexital("sim", mk_candles(rows), members, timeframe_fill=cfg.get("fill", False))
    return hx, cons


def _bad_value(v):
    """None if v is an acceptable stored value, else a description."""
    if v is None or isinstance(v, bool):
        return None
    if isinstance(v, (int, float)):
        if isinstance(v, float) and not math.isfinite(v):
            return "nan" if math.isnan(v) else "inf"
        return None
    if isinstance(v, dict):
        for k, x in v.items():
            b = _bad_value(x)
            if b:
                return f"{k}:{b}"
        return None
    return "type:" + type(v).__name__


def _label(cfg):
    if cfg["kind"] == "chain":
        return f"{spec_label(cfg['spec'])}<-{cfg['producer']['cls']}"
    return spec_label(cfg["spec"])


def execute(trace, ctx=None):
    from .. import catalogue

    catalogue.TZ_OFFSET_MIN = trace["config"].get("utc_offset_min")
    try:
        return _execute(trace)
    finally:
        catalogue.TZ_OFFSET_MIN = None


def _execute(trace):
    def body(run):
        cfg = trace["config"]
        label = _label(cfg)
        cls = cfg["spec"]["cls"]
        delivered = []
        subject = member = None
        n_appends = 0
        produced = False
        tf_name = (cfg["spec"].get("common") or {}).get("timeframe")

        def span_n(rows):
            # with gap filling the library legitimately creates one candle per bucket of the span: the
            # step budget has to scale with that, not only with the number of delivered candles
            if not tf_name or not rows:
                return 0
            return (rows[-1][0] - rows[0][0]) // tf_seconds(tf_name)

        for i, op in enumerate(trace["ops"]):
            run.op_index = i
            kind = op["op"]
            try:
                if kind == "new":
                    rows = op.get("preload") or []
                    delivered.extend(rows)
                    subject, member = run.call((len(rows) + span_n(rows)) * 4, _build, cfg, rows)
                    run.call((len(rows) + span_n(rows)) * 6, subject.calculate)
                elif subject is None:
                    continue
                elif kind == "append":
                    rows = op["candles"]
                    if rows and delivered and rows[0][0] < delivered[-1][0]:
                        continue
                    n_appends += 1 if rows else 0
                    delivered.extend(rows)
                    run.call((len(delivered) + span_n(delivered)) * 6, subject.append, mk_candles(rows))
                    continue
                elif kind != "check":
                    continue
            except LibError as e:
                raise Violation("exception", label, e.site, {"error": repr(e.exc), "op": kind,
                                                              "n_candles": len(delivered)})
            # ---- invariants over everything stored
            candles = member.candles
            name = member.name
            seen = {}  # field -> first index with a value
            for j, c in enumerate(candles):
                for store, d in (("indicators", c.indicators), ("sub_indicators", c.sub_indicators)):
                    for key, val in d.items():
                        bad = _bad_value(val)
                        if bad:
                            own = "self" if key == name else ("helper" if key.startswith(name) else "other")
                            raise Violation("non-finite", label, f"{store}:{own}:{bad}",
                                            {"index": j, "key": key, "value": repr(val)})
                val = c.indicators.get(name)
                fields = val.items() if isinstance(val, dict) else (("value", val),)
                if val is None and cls in DICT_VALUED:
                    fields = tuple((f, None) for f in DICT_VALUED[cls])
                for f, x in fields:
                    if cls == "Supertrend" and f in ("long", "short"):
                        continue
                    if x is not None:
                        seen.setdefault(f, j)
                        produced = True
                    elif f in seen:
                        raise Violation("gap-after-warmup", label, f,
                                        {"index": j, "first_value_at": seen[f], "n": len(candles)})
            run.observe(kind, len(candles), [repr(c.indicators.get(name)) for c in candles[-3:]])
            run.state(label, produced, cfg.get("fill", False))
        if subject is None:
            raise Discard("no-new-op")
        _reach(run, cfg, member, delivered)
        fired = trace.get("fired") or {}
        degenerate = any(k.startswith(("regime_", "halt", "drop")) and v for k, v in fired.items())
        run.nontrivial = produced and (degenerate or n_appends >= 2)
    return run_property(ID, body, trace)


def _period_of(spec):
    p = spec.get("params") or {}
    vals = [v for k, v in p.items() if isinstance(v, int) and not isinstance(v, bool) and "period" in k]
    return max(vals) if vals else 14


def _reach(run, cfg, member, delivered):
    """Reach probes computed from the delivered stream and by READING what the library stored."""
    period = _period_of(cfg["spec"])
    candles = member.candles
    flat = zvol = up = down = fillrun = 0
    best = {"flat": 0, "zvol": 0, "up": 0, "down": 0, "fill": 0}
    active_before_flat = False
    moved = False
    prev = None
    for c in candles:
        is_flat = c.high == c.low
        flat = flat + 1 if is_flat else 0
        if not is_flat:
            moved = True
        if is_flat and moved and flat >= period:
            active_before_flat = True
        zvol = zvol + 1 if c.volume == 0 else 0
        if prev is not None:
            up = up + 1 if c.close > prev.close else 0
            down = down + 1 if c.close < prev.close else 0
        fillrun = fillrun + 1 if (is_flat and c.volume == 0 and prev is not None and c.open == prev.close) else 0
        for k, v in (("flat", flat), ("zvol", zvol), ("up", up), ("down", down), ("fill", fillrun)):
            best[k] = max(best[k], v)
        prev = c
    if best["flat"] >= period:
        run.stats["reach:flat_window>=period"] += 1
    if active_before_flat:
        run.stats["reach:flat_window>=period_after_activity"] += 1
    if best["zvol"] >= period:
        run.stats["reach:zero_volume_window>=period"] += 1
    if max(best["up"], best["down"]) >= period + 1:
        run.stats["reach:one_sided_run>=period+1"] += 1
    if candles and len(candles) > period and (candles[0].high == candles[0].low):
        run.stats["reach:flat_from_first_candle"] += 1
    if best["fill"] >= period:
        run.stats["reach:fill_run>=period"] += 1
    # a stored helper value exactly 0 after having been non-zero
    seen_nonzero = set()
    hit = False
    for c in candles:
        for key, val in c.sub_indicators.items():
            vals = val.values() if isinstance(val, dict) else (val,)
            for x in vals:
                if isinstance(x, (int, float)) and not isinstance(x, bool):
                    if x != 0:
                        seen_nonzero.add(key)
                    elif key in seen_nonzero:
                        hit = True
    if hit:
        run.stats["reach:helper_zero_after_nonzero"] += 1


def simplify(trace):
    cfg = trace["config"]
    spec = cfg["spec"]
    common = spec.get("common") or {}
    if cfg["kind"] == "indicator":
        for key in ("timeframe_fill", "timeframe"):
            if key in common:
                c2 = {k: v for k, v in common.items() if k != key}
                if key == "timeframe":
                    c2.pop("timeframe_fill", None)
                yield dict(trace, config=dict(cfg, spec=dict(spec, common=c2), fill=bool(c2.get("timeframe_fill"))))
    params = spec.get("params") or {}
    for k, v in params.items():
        if isinstance(v, int) and not isinstance(v, bool) and v > 2 and "period" in k:
            for nv in (2, v // 2, v - 1):
                if 2 <= nv < v:
                    p2 = dict(params, **{k: nv})
                    if spec["cls"] == "MACD" and p2.get("fast_period", 12) == p2.get("slow_period", 26):
                        continue
                    yield dict(trace, config=dict(cfg, spec=dict(spec, params=p2)))
