"""C18 -- timeframe bucketing does not depend on the process time zone.

Fault: the TZ of the process (os.environ["TZ"] + time.tzset()), for the whole run or switched
between operations ("the process was restarted elsewhere").  Every sampled trace is executed under
EVERY zone of a fixed panel (the panel is enumerated, the traces are sampled) and must give exactly
the collapsed candles and readings it gives under UTC, never raising where UTC does not.  Streams
are placed on and around the 2023 DST transition dates of the panel zones as well as on ordinary days.
"""
from __future__ import annotations

import os
import time

from .. import planlib, simclock, world
from ..catalogue import encode, mk_candles
from ..core import Discard, LibError, Violation, run_property
from ..subjects import ROUTES, Neighbours, build_route
from ..util import candle_full, sub_rng, tf_seconds

ID = "C18"
LEVEL = "fault_enumeration"
SUBBATCHES = ("calm", "faulty")
REFERENCE_MODELS = ["UTC twin: the same trace executed with TZ=UTC"]
PANEL = [
    "Asia/Kolkata", "Asia/Kathmandu", "Australia/Lord_Howe", "America/New_York", "Europe/London",
    "America/St_Johns", "Pacific/Chatham", "XXX+3:45", "EST5EDT,M3.2.0,M11.1.0",
    "America/Havana",      # clocks go forward AT local midnight: that day has no 00:00
]
# further zones enumerated in the thorough tier
PANEL_THOROUGH = [
    "Asia/Tehran", "Australia/Adelaide", "Pacific/Marquesas", "Africa/Casablanca", "Asia/Yangon",
    "America/Sao_Paulo", "Europe/Lisbon", "Antarctica/Troll", "Australia/Eucla", "Asia/Tokyo",
]
TIMEFRAMES = ["S30", "T1", "T5", "T15", "T30", "T45", "H1", "H2", "H4", "H7", "D1", "D2"]
# local dates (naive axis) around which at least one panel zone changes its offset in 2023
DST_DAYS = [
    (2023, 3, 12), (2023, 3, 26), (2023, 4, 2), (2023, 9, 24), (2023, 10, 1), (2023, 10, 29), (2023, 11, 5),
]
RULE = ("every sampled trace (seeded world loop: feed faults, chunked delivery, optional TZ switches between "
        "operations) is executed under UTC and under each of the 10 zones of the panel on a real CandleManager "
        "(four routes); non-trivial = at least two collapsed buckets were compared under every zone and the stream "
        "came in at least two non-empty appends or a fault fired; distinct = distinct digests of (trace, UTC result)")
ASSUMPTIONS = ["zone data from /usr/share/zoneinfo and glibc tzset(); the panel is fixed, zones outside it are not run",
               "the wall clock is simulated (hexsim/simclock.py): the library's datetime.now()/time.time() would read "
               "the instant set from the trace (live feed: just after each arrival), converted with the zone under test; "
               "at the pinned commit the library never reads it (reads are counted and reported)"]


def _set_tz(zone):
    os.environ["TZ"] = zone
    time.tzset()


def plan(seed, subbatch):
    import calendar

    cfg = sub_rng(seed, "config")
    tf = cfg.choice(TIMEFRAMES)
    tf_s = tf_seconds(tf)
    base_s = cfg.choice([b for b in (15, 60, 300, 900, 1800, 3600) if b <= tf_s] or [15])
    n = planlib.pick_n(cfg, (2, 12), (5, 60), (20, 150))
    route = cfg.choice(ROUTES)
    if cfg.random() < 0.6:
        y, m, d = cfg.choice(DST_DAYS)
        day0 = calendar.timegm((y, m, d, 0, 0, 0))
        start = day0 - cfg.randint(0, 14) * 3600 + cfg.randint(0, 3) * 3600
        start -= start % base_s
        where = "dst_day"
    else:
        start = world.pick_start(cfg, base_s, tf_s)
        where = "ordinary_day"
        if sub_rng(seed, "epoch").random() < 0.12:
            # across 1970-01-01: the stream covers the hours in which the panel zones' local epoch instants lie
            target = sub_rng(seed, "epoch-at").randint(-14 * 3600, 14 * 3600)
            start = target - int(sub_rng(seed, "epoch-frac").random() * n * base_s)
            start -= start % base_s
            where = "epoch"
    if subbatch == "calm":
        faults, burst, p_empty = {}, None, 0.0
        switches = 0
    else:
        faults, burst, p_empty, _ = planlib.swarm_faults(cfg, base_s, tf_s, allowed=("drop", "dup", "jitter", "offset", "burst", "halt"),
                                                         halt_buckets=(3, 10))
        switches = cfg.choice((0, 0, 1, 2, 3))
    op_rng = sub_rng(seed, "operator")
    extras = [(op_rng.random(), {"op": "tz"}) for _ in range(switches)]
    pre, ops, fired, rows = planlib.stream_and_schedule(seed, subbatch, n, base_s, start, faults, burst, p_empty,
                                                        extras, max_span_s=400 * tf_s)
    fired["placed_on_" + where] += 1
    fired["tz_switch_ops"] += switches
    return {"format": 1, "property": ID, "seed": seed, "subbatch": subbatch,
            "config": {"route": route, "tf": tf, "base_s": base_s, "fill": cfg.random() < 0.5,
                       "enc": cfg.choice(("candles", "candles", "dicts_iso", "dicts")),
                       "lifespan_s": (tf_s * cfg.randint(2, 12) if cfg.random() < 0.25 else None),
                       # the simulated wall clock: a live feed handled `lag` seconds after each arrival's newest
                       # candle, or (None) a replay of old data long after the fact
                       "clock_lag_s": sub_rng(seed, "clock").choice((1, 1, base_s, tf_s, 3 * 3600, None)),
                       # another manager alive in the same process, built first over the same stream moved by an
                       # hour or half an hour (the size of the panel zones' offset changes)
                       # timestamps as instances of a datetime subclass (data frames hand such objects over)
                       "stamp_subclass": sub_rng(seed, "stamp-class").random() < 0.15,
                       "fold_one": sub_rng(seed, "fold").random() < 0.12,     # some stamps carry fold=1
                       # timezone-AWARE streams too (as datetimes or, with the ISO encoding, as strings with Z / an
                       # offset): their buckets are on their own wall clock whatever the process zone is
                       "utc_offset_min": sub_rng(seed, "aware").choice((None, None, None, None, 0, 0, 60, -210)),
                       "neighbours": ([{"tf": tf, "shift_s": sub_rng(seed, "neighbours").choice((-3600, 3600, -1800, 1800))}]
                                      if sub_rng(seed, "neighbours-p").random() < 0.3 else [])},
            "ops": [{"op": "new", "preload": pre}] + ops, "fired": dict(fired)}


def _run_under(run, trace, zone, count_budget):
    """Execute the trace with the process in `zone` ('tz' ops toggle between `zone` and UTC).
    Returns list of per-op results: snapshot list or ('raise', site)."""
    cfg = trace["config"]
    tf, route = cfg["tf"], cfg["route"]
    out = []
    delivered = []
    subject = view = None
    current = zone
    _set_tz(current)
    try:
        for op in trace["ops"]:
            kind = op["op"]
            rows_ = (op.get("preload") if kind == "new" else op.get("candles") if kind == "append" else None) or []
            if rows_ and cfg.get("clock_lag_s") is not None:
                # LIVE feed: the process handles each arrival `lag` seconds after its newest candle (stamped in
                # UTC, as exchanges do); the simulated clock is that instant in every zone of the panel
                simclock.set_now(rows_[-1][0] + cfg["clock_lag_s"])
            try:
                if kind == "new":
                    rows = op.get("preload") or []
                    delivered.extend(rows)
                    neigh = Neighbours(cfg.get("neighbours"), rows)
                    span_n = (rows[-1][0] - rows[0][0]) // tf_seconds(tf) if rows else 0
                    subject, _m, view = run.call(len(rows) * 2 + span_n, build_route, route, tf, rows,
                                                 bool(cfg.get("fill")), cfg.get("lifespan_s"))
                    if route != "manager":
                        run.call(len(rows) * 2, subject.calculate)
                elif subject is None:
                    out.append(None)
                    continue
                elif kind == "append":
                    rows = op["candles"]
                    if rows and delivered and rows[0][0] < delivered[-1][0]:
                        out.append(None)
                        continue
                    delivered.extend(rows)
                    neigh.feed(rows)
                    span_n = (delivered[-1][0] - delivered[0][0]) // tf_seconds(tf)
                    run.call(len(delivered) * 2 + span_n, subject.append,
                             encode(rows, cfg.get("enc") or "candles") if rows else [])
                elif kind == "tz":
                    current = "UTC" if current == zone else zone
                    _set_tz(current)
                    out.append(None)
                    continue
                else:
                    out.append(None)
                    continue
            except LibError as e:
                out.append(("raise", e.site, repr(e.exc)))
                return out
            out.append([candle_full(c) for c in view()])
    finally:
        _set_tz("UTC")
    return out


def execute(trace, ctx=None):
    def body(run):
        route = trace["config"]["route"]
        ref = _run_under(run, trace, "UTC", True)
        if any(isinstance(r, tuple) for r in ref):
            raise Discard("utc-run-raised")
        snaps = [r for r in ref if r]
        if not snaps:
            raise Discard("nothing-collapsed")
        run.observe(ref[-1])
        n_appends = sum(1 for op in trace["ops"] if op["op"] == "append" and op["candles"])
        for zone in PANEL + (PANEL_THOROUGH if planlib.thorough() else []):
            got = _run_under(run, trace, zone, False)
            for i, (g, w) in enumerate(zip(got, ref)):
                run.op_index = i
                if isinstance(g, tuple):
                    raise Violation("zone-raises", route, g[1], {"zone": zone, "error": g[2]})
                if g != w:
                    j = next((x for x in range(min(len(g), len(w))) if g[x] != w[x]), min(len(g), len(w)))
                    a = g[j] if j < len(g) else None
                    b = w[j] if j < len(w) else None
                    what = "count" if a is None or b is None else ("label" if a[0] != b[0] else "values")
                    raise Violation("zone-vs-utc", route, what,
                                    {"zone": zone, "index": j, "zone_candle": a, "utc_candle": b,
                                     "tf": trace["config"]["tf"]})
            run.stats["zone_runs"] += 1
        run.state(trace["config"]["tf"], route, min(len(snaps[-1]), 3), bool(trace["config"].get("fill")))
        run.nontrivial = len(snaps[-1]) >= 2 and (n_appends >= 2 or planlib.feed_fired(trace.get("fired")))
    from .. import catalogue

    catalogue.STAMP_SUBCLASS = bool(trace["config"].get("stamp_subclass"))
    catalogue.TZ_OFFSET_MIN = trace["config"].get("utc_offset_min")
    catalogue.FOLD_ONE = bool(trace["config"].get("fold_one"))
    try:
        return run_property(ID, body, trace)
    finally:
        catalogue.FOLD_ONE = False
        catalogue.STAMP_SUBCLASS = False
        catalogue.TZ_OFFSET_MIN = None
        _set_tz("UTC")


def simplify(trace):
    cfg = trace["config"]
    if cfg["route"] != "manager":
        yield dict(trace, config=dict(cfg, route="manager"))
