"""C14 -- maintenance operations are idempotent and always converge to the batch state.

Subject: a real standalone indicator or a real Hexital (1-3 members, mixed timeframes) driven by a
random operator program over append / calculate / purge / recalculate / calculate_index(+-i) /
add_indicator (new, or a warm restart: the identical configuration re-added) / remove_indicator,
ending with calculate().  Per-operation oracles on deep snapshots of every candle's two reading
dictionaries; convergence oracle against the batch twin.
"""
from __future__ import annotations

from .. import planlib, world
from ..catalogue import NESTED, build, member_name, helper_collision, sample_members, sample_spec, spec_label
from ..core import Discard, LibError, Violation, run_property
from ..machine import Machine
from ..relational import norm_key
from ..util import diff_field, freeze, sub_rng, tf_seconds

ID = "C14"
LEVEL = "exploration"
SUBBATCHES = ("calm", "faulty")
REFERENCE_MODELS = ["batch twin over the current candles", "key ownership of purge: key set written by a solo reference run"]
RULE = ("seeded operator programs interleaved with chunked delivery on a real indicator or Hexital; per-op oracles "
        "(idempotence, reproduction, exact purge ownership) and batch-twin convergence after the final calculate(); "
        "non-trivial = at least two maintenance ops were applied (not skipped by their guard) on a state holding a "
        "non-None reading; distinct = distinct digests of (trace, snapshots)")

OPS = ("calculate", "purge", "recalculate", "calc_index", "calc_index", "add", "readd", "remove", "unknown_name",
       "calc_range", "readd_same")


def plan(seed, subbatch):
    cfg = sub_rng(seed, "config")
    kind = "hexital" if cfg.random() < 0.6 else "indicator"
    base_s, tf, tf_s = planlib.base_and_tf(cfg, 1.0, 8.0, p_none=0.5, allow_finer=False)
    pool = None
    if cfg.random() < 0.5:
        pool = NESTED
    if kind == "indicator":
        spec = sample_spec(cfg, cfg.choice(pool) if pool else None, max_period=8)
        if tf:
            spec["common"]["timeframe"] = tf
        if cfg.random() < 0.2:
            spec["common"]["candlestick_type"] = "HA"
        members = [spec]
        hexcfg = None
    else:
        tfs = [None, None] + ([tf, tf] if tf else [])
        members = sample_members(cfg, cfg.randint(1, 3), tfs, max_period=8, classes=pool)
        hexcfg = {"candlestick_type": "HA"} if cfg.random() < 0.2 else {}
        if sub_rng(seed, "shared-args").random() < 0.06:
            from .c13 import adversarial_pair

            pr = sub_rng(seed, "shared-args-pair")
            for _try in range(40):
                a_, b_, rel = adversarial_pair(pr, None)
                if rel == "shared_args":
                    members = [a_, b_]
                    break
        lv = sub_rng(seed, "level")
        if lv.random() < 0.25:
            # a Hexital-level timeframe below the members' (members without one inherit it)
            cands = [t for t in world.TIMEFRAMES if base_s <= tf_seconds(t) <= 4 * base_s
                     and (tf is None or (tf_s % tf_seconds(t) == 0 and tf_seconds(t) < tf_s))]
            if cands:
                hexcfg["timeframe"] = lv.choice(cands)
    fx = sub_rng(seed, "features")
    if tf and fx.random() < 0.15:
        # gap filling next to the maintenance operations (not under a Hexital-level timeframe: members derived
        # from filled level candles at construction are the known C08 finding)
        if kind == "indicator":
            members[0]["common"]["timeframe_fill"] = True
        elif not hexcfg.get("timeframe"):
            hexcfg["timeframe_fill"] = True
    if kind == "hexital" and sub_rng(seed, "add-later").random() < 0.15:
        hexcfg["add_later"] = True     # the Hexital is built empty, members arrive through add_indicator
    if kind == "hexital" and sub_rng(seed, "via-member").random() < 0.2:
        hexcfg["via_member"] = True    # calculate / purge / recalculate of ONE member are called on the member object
    n = planlib.pick_n(cfg, (3, 15), (10, 60), (30, 150))
    if subbatch == "calm":
        faults, burst = {}, None
    else:
        faults, burst, _pe, _k = planlib.swarm_faults(cfg, base_s, tf_s, allowed=("drop", "dup", "burst", "jitter"))
    op_rng = sub_rng(seed, "operator")
    extras = []
    n_ops = op_rng.choice((op_rng.randint(1, 4), op_rng.randint(3, 12), op_rng.randint(8, 40)))
    extra_specs = []
    for _ in range(n_ops):
        kind_op = op_rng.choice(OPS)
        op = {"op": kind_op, "target": op_rng.choice((None, 0, 1, 2)) if kind_op not in ("remove", "readd", "readd_same") else op_rng.randint(0, 2)}
        if kind_op in ("purge", "recalculate") and op_rng.random() < 0.3:
            op["raw"] = True   # applied to the state as it is (e.g. right after add_indicator, before any calculate)
        if kind_op == "calc_range":
            op["pos"] = op_rng.random()
        if kind_op == "calc_index":
            op["pos"] = op_rng.choice((op_rng.random(), 0.999, 0.999))
            op["neg"] = op_rng.random() < 0.5
        if kind_op == "add":
            if kind == "indicator":
                continue
            for _try in range(10):
                s = sample_spec(op_rng, op_rng.choice(pool) if pool else None, max_period=8)
                if tf and op_rng.random() < 0.4:
                    s["common"]["timeframe"] = tf
                nm = member_name(s)
                others = members + extra_specs
                if all(member_name(o) != nm for o in others) and not any(helper_collision(s, o) for o in others):
                    extra_specs.append(s)
                    op["spec"] = s
                    op["form"] = op_rng.choice(("object", "dict"))
                    break
            if "spec" not in op:
                continue
        if kind_op in ("remove", "readd", "readd_same") and kind == "indicator":
            continue
        extras.append((op_rng.random(), op))
    start = world.pick_start(cfg, base_s, tf_s)
    regimes = None
    if subbatch == "faulty" and cfg.random() < 0.4:
        regimes = world.REGIMES_NORMAL + cfg.sample(["stall", "stall0", "zerovol"], 2)
    pre, ops, fired, rows = planlib.stream_and_schedule(seed, subbatch, n, base_s, start, faults, burst, 0.0, extras,
                                                        regimes=regimes, regime_len=(1, 10))
    fired["operator_ops"] += len(extras)
    out = [{"op": "new", "preload": pre, "calculate": cfg.random() < 0.7}] + ops + [{"op": "final"}]
    return {"format": 1, "property": ID, "seed": seed, "subbatch": subbatch,
            "config": {"kind": kind, "members": members, "hexital": hexcfg, "base_s": base_s},
            "ops": out, "fired": dict(fired)}


def full_reading(spec, v):
    if v is None:
        return False
    if isinstance(v, dict):
        return all(x is not None for k, x in v.items()
                   if not (spec["cls"] == "Supertrend" and k in ("long", "short")))
    return True


def first_snapshot_diff(a, b):
    """First difference between two Machine.snapshot() dicts: (manager, index, field) or None."""
    for name in sorted(set(a) | set(b)):
        xa, xb = a.get(name, []), b.get(name, [])
        if len(xa) != len(xb):
            return name, min(len(xa), len(xb)), "count"
        for j, (ca, cb) in enumerate(zip(xa, xb)):
            if ca != cb:
                return name, j, diff_field(ca, cb)
    return None


def owned_keys(machine, slot):
    """Reference for 'the keys x owns': every key a solo run of x writes on fresh candles."""
    spec = slot.spec
    ctype = (machine.cfg.get("hexital") or {}).get("candlestick_type")
    if ctype:
        # which helper keys get written depends on the data the indicator sees: the solo reference run
        # must see the same (converted) candles as the member inside the Hexital
        spec = dict(spec, common=dict(spec.get("common") or {}, candlestick_type=ctype))
    if (machine.cfg.get("hexital") or {}).get("timeframe_fill") and (spec.get("common") or {}).get("timeframe"):
        # likewise for gap filling switched on at Hexital level: with inserted candles the member gets far enough
        # to write helper keys that a run over the unfilled candles never reaches
        spec = dict(spec, common=dict(spec.get("common") or {}, timeframe_fill=True))
    twin = build(spec, machine.delivered)
    twin.calculate()
    keys = set()
    for c in twin.candles:
        keys.update(c.indicators)
        keys.update(c.sub_indicators)
    return keys


def manager_of(machine, slot):
    for name, candles in machine.managers().items():
        if candles is slot.ind.candles:
            return name
    return None


def batch_columns(machine):
    """name -> own-name column of each registered member in a batch twin over everything delivered."""
    live = machine.live_slots()
    twin, slots = machine.make(machine.delivered, [s.spec for s in live])
    twin.calculate()
    return {s.name: [freeze(c.indicators.get(s.name)) for c in s.ind.candles] for s in slots}


def live_columns(machine):
    return {s.name: [freeze(c.indicators.get(s.name)) for c in s.ind.candles] for s in machine.live_slots()}


def execute(trace, ctx=None):
    def body(run):
        cfg = trace["config"]
        m = Machine(run, cfg)
        applied = 0
        had_reading = False

        def label_of(slot):
            return spec_label(slot.spec) if slot is not None else "all"

        def expect_same(before, oracle, slot, what=None):
            after = m.snapshot()
            d = first_snapshot_diff(before, after)
            if d is not None:
                mgr, j, field = d
                own = slot.name if slot is not None else None
                raise Violation(oracle, label_of(slot), what or norm_key(field, own),
                                {"manager": mgr, "index": j, "field": field,
                                 "before": before[mgr][j] if j < len(before[mgr]) else None,
                                 "after": after[mgr][j] if j < len(after[mgr]) else None})

        def twin_raises():
            try:
                batch_columns(m)
            except Exception as exc:  # noqa: BLE001
                return type(exc).__name__
            return None

        for i, op in enumerate(trace["ops"]):
            run.op_index = i
            kind = op["op"]
            try:
                if kind == "new":
                    m.new(op.get("preload") or [], calculate=op.get("calculate", True))
                    continue
                if m.subject is None:
                    continue
                if kind == "append":
                    rows = op["candles"]
                    if rows and m.delivered and rows[0][0] < m.delivered[-1][0]:
                        continue
                    m.append(rows)
                    continue
                slot = m.slot(op.get("target"))
                if kind in ("calculate", "final"):
                    if kind == "final":
                        slot = None
                    m.calculate(slot)
                    before = m.snapshot()
                    m.calculate(slot)
                    expect_same(before, "calculate-not-idempotent", slot)
                    if kind == "final":
                        want = batch_columns(m)
                        got = live_columns(m)
                        for name in want:
                            if got.get(name) != want[name]:
                                a, b = got.get(name, []), want[name]
                                j = next((x for x in range(min(len(a), len(b))) if a[x] != b[x]), min(len(a), len(b)))
                                s = next(s for s in m.live_slots() if s.name == name)
                                raise Violation("final-vs-batch", spec_label(s.spec),
                                                "none-instead-of-value" if j < len(a) and a[j] is None else "differs",
                                                {"name": name, "index": j, "live": a[j] if j < len(a) else None,
                                                 "batch": b[j] if j < len(b) else None, "n": len(b)})
                        if any(v is not None for col in want.values() for v in col):
                            had_reading = True
                    applied += 1
                elif kind == "recalculate" and op.get("raw"):
                    # on the state as it is (possibly never calculated): afterwards the recalculated
                    # member(s) must hold exactly the batch readings
                    m.recalculate(slot)
                    want = batch_columns(m)
                    got = live_columns(m)
                    for s in ([slot] if slot is not None else m.live_slots()):
                        if got.get(s.name) != want.get(s.name):
                            raise Violation("recalculate-vs-batch", spec_label(s.spec), "differs", {"name": s.name})
                    run.stats["raw_ops"] += 1
                    applied += 1
                elif kind == "recalculate":
                    m.calculate(slot)
                    before = m.snapshot()
                    m.recalculate(slot)
                    expect_same(before, "recalculate-does-not-reproduce", slot)
                    applied += 1
                elif kind == "purge":
                    targets = [slot] if slot is not None else m.live_slots()
                    if not op.get("raw"):
                        m.calculate(None)
                    else:
                        run.stats["raw_ops"] += 1
                    before = m.snapshot()
                    owned = {}
                    for s in targets:
                        owned.setdefault(manager_of(m, s), set()).update(owned_keys(m, s))
                    m.purge(slot)
                    after = m.snapshot()
                    _check_purge(before, after, owned, label_of(slot))
                    applied += 1
                elif kind == "remove":
                    live = m.live_slots()
                    if len(live) < 2 or slot is None:
                        run.stats["guard_skip:remove"] += 1
                        continue
                    m.calculate(None)
                    before = m.snapshot()
                    owned = {manager_of(m, slot): owned_keys(m, slot)}
                    m.remove(slot)
                    after = m.snapshot()
                    _check_purge(before, after, owned, label_of(slot), oracle="remove")
                    applied += 1
                elif kind == "add":
                    if m.kind != "hexital" or any(s.name == member_name(op["spec"]) for s in m.live_slots()):
                        run.stats["guard_skip:add"] += 1
                        continue
                    before = m.snapshot()
                    m.add(op["spec"], op.get("form", "object"))
                    # add_indicator does not calculate and must not touch existing readings ... unless
                    # it created a new timeframe manager, which only adds a key to the snapshot
                    after = m.snapshot()
                    for name in before:
                        if before[name] != after.get(name):
                            raise Violation("add-touches-readings", label_of(None), "existing-manager", {"manager": name})
                    applied += 1
                elif kind == "readd_same":
                    # the very same object taken out and put back: like any other sequence of removals and
                    # additions it must end with the batch readings (checked by the final comparison)
                    if m.kind != "hexital" or slot is None:
                        run.stats["guard_skip:readd_same"] += 1
                        continue
                    m.readd_same(slot)
                    m.calculate(None)
                    run.stats["reach:same_object_removed_and_added_again"] += 1
                    applied += 1
                elif kind == "readd":
                    if m.kind != "hexital" or slot is None:
                        run.stats["guard_skip:readd"] += 1
                        continue
                    m.calculate(None)
                    before = m.snapshot()
                    m.add(slot.spec, "object")   # warm restart of one member: identical configuration
                    m.calculate(None)
                    expect_same(before, "warm-restart-changes-readings", slot)
                    applied += 1
                elif kind == "unknown_name":
                    # maintenance calls naming an indicator the Hexital does not hold: nothing may change
                    if m.kind != "hexital":
                        continue
                    m.calculate(None)
                    before = m.snapshot()
                    hx = m.subject
                    for fn in (hx.calculate, hx.purge, hx.recalculate, hx.remove_indicator):
                        run.call(m.n_candles() * 6, fn, "no_such_indicator")
                    expect_same(before, "unknown-name-call-changes-state", None)
                    applied += 1
                elif kind == "calc_range":
                    # the two-argument form on a standalone indicator: recomputing a RANGE of indices that
                    # already hold readings reproduces them
                    if m.kind != "indicator":
                        continue
                    slot0 = m.live_slots()[0]
                    n = len(slot0.ind.candles)
                    if n < 3:
                        continue
                    m.calculate(None)
                    hi = n - 1
                    lo = max(0, hi - 1 - int(op.get("pos", 0.5) * 4))
                    if not all(_index_guard(m, slot0, j) for j in (lo, hi)):
                        run.stats["guard_skip:calc_range"] += 1
                        continue
                    before = m.snapshot()
                    run.call(m.n_candles() * 6, m.subject.calculate_index, lo, hi + 1)
                    expect_same(before, "calc-range-does-not-reproduce", slot0)
                    applied += 1
                elif kind == "calc_index":
                    targets = [slot] if slot is not None else m.live_slots()
                    m.calculate(None)
                    if slot is None and m.kind == "hexital":
                        idx = -1 if op.get("pos", 0.999) > 0.5 else -2
                        ok = all(_index_guard(m, s, idx) for s in targets)
                    else:
                        n = len(targets[0].ind.candles)
                        if n == 0:
                            continue
                        j = min(int(op.get("pos", 0.999) * n), n - 1)
                        idx = j - n if op.get("neg") else j
                        ok = _index_guard(m, targets[0], idx)
                    if not ok:
                        run.stats["guard_skip:calc_index"] += 1
                        continue
                    before = m.snapshot()
                    m.calculate_index(slot, idx)
                    run.stats["calc_index_neg" if idx < 0 else "calc_index_pos"] += 1
                    expect_same(before, "calc-index-does-not-reproduce", slot if slot is not None else targets[0],
                                None)
                    applied += 1
                else:
                    continue
                run.observe(kind, m.snapshot())
                run.state(kind, m.kind, len(m.live_slots()))
            except LibError as e:
                if kind in ("new", "append", "calculate", "final") and twin_raises() == e.type:
                    raise Discard("exception-on-both-sides:" + e.type)
                raise Violation("exception", kind, e.site, {"error": repr(e.exc), "op": op})
        if m.subject is None:
            raise Discard("no-new-op")
        run.stats["reach:maintenance_ops_applied"] += applied
        run.nontrivial = applied >= 2 and had_reading
    return run_property(ID, body, trace)


def _index_guard(m, slot, idx):
    """The property's precondition for calculate_index: the reading at idx and its predecessors are
    already computed (column equals the batch twin's up to idx) and the reading at idx is complete."""
    candles = slot.ind.candles
    n = len(candles)
    if not -n <= idx < n:
        return False
    j = idx if idx >= 0 else n + idx
    if not full_reading(slot.spec, candles[j].indicators.get(slot.name)):
        return False
    try:
        want = batch_columns(m).get(slot.name)
    except Exception:  # noqa: BLE001
        return False
    got = [freeze(c.indicators.get(slot.name)) for c in candles]
    return want is not None and got[: j + 1] == want[: j + 1]


def _check_purge(before, after, owned, label, oracle="purge"):
    for mgr in before:
        own = owned.get(mgr, set())
        b, a = before[mgr], after.get(mgr, [])
        if len(a) != len(b):
            raise Violation(oracle + "-changed-candles", label, "count", {"manager": mgr})
        for j, (cb, ca) in enumerate(zip(b, a)):
            if cb[:6] != ca[:6]:
                raise Violation(oracle + "-changed-candles", label, "ohlcv", {"manager": mgr, "index": j})
            for part, tag in ((6, "indicators"), (7, "sub")):
                db, da = dict(cb[part]), dict(ca[part])
                for k in da:
                    if k in own:
                        raise Violation(oracle + "-leaves", label, norm_key(f"{tag}:{k}", None),
                                        {"manager": mgr, "index": j, "key": k})
                for k, v in db.items():
                    if k in own:
                        continue
                    if k not in da:
                        raise Violation(oracle + "-removes-foreign", label, norm_key(f"{tag}:{k}", None),
                                        {"manager": mgr, "index": j, "key": k})
                    if da[k] != v:
                        raise Violation(oracle + "-changes-foreign", label, norm_key(f"{tag}:{k}", None),
                                        {"manager": mgr, "index": j, "key": k})
                for k in da:
                    if k not in db:
                        raise Violation(oracle + "-adds", label, norm_key(f"{tag}:{k}", None),
                                        {"manager": mgr, "index": j, "key": k})


def simplify(trace):
    cfg = trace["config"]
    if cfg["kind"] == "hexital" and len(cfg["members"]) > 1:
        for k in range(len(cfg["members"])):
            yield dict(trace, config=dict(cfg, members=cfg["members"][:k] + cfg["members"][k + 1:]))
    for k, mm in enumerate(cfg["members"]):
        common = mm.get("common") or {}
        for key in ("round_value", "timeframe"):
            if key in common:
                c2 = {a: b for a, b in common.items() if a != key}
                ms = list(cfg["members"])
                ms[k] = dict(mm, common=c2)
                yield dict(trace, config=dict(cfg, members=ms))
