"""C08 -- indicators inside a Hexital behave exactly like the same indicators standalone.

Subject: a real Hexital with 1-4 members given as Indicator objects, as configuration dicts or as
dicts obtained from an indicator's .settings; mixed and repeated member timeframes; Hexital-level
timeframe / fill / lifespan / Heikin-Ashi; candles at construction and/or through appends under a
faulty schedule; optional RESTART: the Hexital is rebuilt from its indicator_settings and the raw
candles.  Oracle: per member a SOLO TWIN - the same class and parameters with the effective
configuration, fed the same arrivals under the same schedule - must have exactly the same candles and
the same readings; without Hexital-level timeframe / candlestick type the base candles keep their
original OHLCV.
"""
from __future__ import annotations

from datetime import timedelta

from hexital import Hexital

from .. import planlib, world
from ..catalogue import as_dict, build, encode, member_name, mk_candles, sample_members, spec_label
from ..core import Discard, LibError, Violation, filled_size, run_property
from ..util import candle_core, freeze, sub_rng, tf_seconds

ID = "C08"
LEVEL = "exploration"
SUBBATCHES = ("calm", "faulty")
REFERENCE_MODELS = ["solo twin per member: standalone indicator with the effective configuration, same schedule"]
RULE = ("seeded member sets (object/dict/settings form, mixed timeframes) and Hexital-level settings, faulty chunked "
        "delivery, restart from settings; non-trivial = at least one member had a non-None reading compared with its "
        "solo twin and the stream came in at least two non-empty appends or a restart happened; distinct = distinct "
        "digests of (trace, member columns)")
FORMS = ("object", "object", "dict", "settings")


def plan(seed, subbatch):
    cfg = sub_rng(seed, "config")
    base_s = cfg.choice((15, 60, 60, 300, 900))
    level_tf = None
    tfs = [None]
    if cfg.random() < 0.3:
        level_tf = cfg.choice([t for t in ("T1", "T5", "T15", "H1") if tf_seconds(t) >= base_s and tf_seconds(t) <= 20 * base_s] or [None])
    if level_tf:
        unit = tf_seconds(level_tf)
        mult = [t for t in world.TIMEFRAMES if tf_seconds(t) % unit == 0 and unit < tf_seconds(t) <= 6 * unit] + [level_tf, level_tf]
    else:
        mult = [t for t in world.TIMEFRAMES if base_s < tf_seconds(t) <= 12 * base_s]
    if mult and cfg.random() < 0.75:
        a = cfg.choice(mult)
        tfs += [a, a, cfg.choice(mult)]
        if cfg.random() < 0.15:
            tfs.append(world.day_shifted(a, cfg.randint(1, 2)))   # a span differing from a's by whole days
    members = sample_members(cfg, cfg.randint(1, 4), tfs, max_period=8)
    pr = sub_rng(seed, "pair")
    if pr.random() < 0.12:
        # a pair of members whose names / helper names are as close as legal names get (a composite next to an
        # indicator of its helper's class with the same period, suffixes, prefixes): C13's adversarial pairs
        from .c13 import adversarial_pair

        a, b, _rel = adversarial_pair(pr, None)
        t = pr.choice(tfs)
        if t:
            a["common"]["timeframe"] = t
            b["common"]["timeframe"] = t
        members = [a, b] if pr.random() < 0.5 else [b, a]
    if level_tf:
        # settings bake the inherited Hexital-level timeframe into the name on a rebuild ("EMA_5" comes
        # back as "EMA_5_T5"): two members that differ only by an explicit vs inherited level timeframe
        # are the same effective indicator and cannot coexist after a restart - keep effective names distinct
        seen, keep = set(), []
        for m in members:
            eff = member_name(dict(m, common=dict(m["common"], timeframe=m["common"].get("timeframe") or level_tf)))
            if eff not in seen:
                seen.add(eff)
                keep.append(m)
        members = keep
    forms = [cfg.choice(FORMS) for _ in members]
    hexcfg = {"timeframe": level_tf, "timeframe_fill": cfg.random() < 0.3,
              "candlestick_type": "HA" if cfg.random() < 0.3 else None,
              # other spellings of the same settings
              "tf_form": cfg.choice(("str", "str", "enum", "lower")), "ctype_form": cfg.choice(("str", "object"))}
    n = planlib.pick_n(cfg, (2, 12), (8, 60), (30, 200))
    widest = max([tf_seconds(m["common"]["timeframe"]) if m["common"].get("timeframe") else tf_seconds(level_tf) if level_tf else base_s
                  for m in members])
    widest = min(widest, 120 * base_s)      # a day-shifted member timeframe does not scale the outages
    if cfg.random() < 0.2:
        hexcfg["lifespan_s"] = max(widest * cfg.randint(8, 40), base_s * n // 2)
        if sub_rng(seed, "life-edge").random() < 0.12:
            hexcfg["lifespan_s"] = 0      # the smallest legal lifespan (only the newest timestamp is retained)
    if subbatch == "calm":
        faults, burst, encs = {}, None, None
    else:
        faults, burst, _pe, _k = planlib.swarm_faults(cfg, base_s, widest, allowed=("drop", "dup", "burst", "jitter", "halt"),
                                                      halt_buckets=(3, 12))
        encs = ["candles", "candles", "dicts", "lists", "dict", "candle"]
    op_rng = sub_rng(seed, "operator")
    extras = []
    if op_rng.random() < 0.35:
        extras.append((op_rng.random(), {"op": "restart"}))
    if op_rng.random() < 0.3:
        extras.append((op_rng.random(), {"op": op_rng.choice(("recalculate_all", "purge_all"))}))
    if sub_rng(seed, "readd").random() < 0.15:
        extras.append((sub_rng(seed, "readd-at").random(), {"op": "readd_same", "target": sub_rng(seed, "readd-k").randint(0, 3)}))
    start = world.pick_start(cfg, base_s, widest)
    k = cfg.choice((0, 0, 1, 2, n // 2, n))
    if hexcfg.get("lifespan_s"):
        k = min(k, max(0, hexcfg["lifespan_s"] // base_s - 1))   # nothing trimmed at construction
    pre, ops, fired, rows = planlib.stream_and_schedule(seed, subbatch, n, base_s, start, faults, burst, 0.0, extras,
                                                        encodings=encs, preload=k, max_span_s=500 * widest)
    for f in forms:
        fired["member_form_" + f] += 1
    if hexcfg["candlestick_type"]:
        fired["hexital_heikin_ashi"] += 1
    if level_tf:
        fired["hexital_level_timeframe"] += 1
    out = [{"op": "new", "preload": pre}]
    every = 1 if len(ops) <= 12 else cfg.choice((4, 9))
    for i, op in enumerate(ops):
        out.append(op)
        if (i + 1) % every == 0:
            out.append({"op": "check"})
    out.append({"op": "check"})
    return {"format": 1, "property": ID, "seed": seed, "subbatch": subbatch,
            "config": {"members": members, "forms": forms, "hexital": hexcfg, "base_s": base_s},
            "ops": out, "fired": dict(fired)}


def _hex_kwargs(h):
    kw = {}
    if h.get("timeframe"):
        kw["timeframe"] = h["timeframe"]
        if h.get("tf_form") == "lower":
            kw["timeframe"] = h["timeframe"].lower()
        elif h.get("tf_form") == "enum":
            from hexital.utils.timeframe import TimeFrame

            try:
                kw["timeframe"] = TimeFrame(h["timeframe"])
            except ValueError:
                pass
    if h.get("timeframe_fill"):
        kw["timeframe_fill"] = True
    if h.get("lifespan_s") is not None:
        kw["candles_lifespan"] = timedelta(seconds=h["lifespan_s"])
    if h.get("candlestick_type"):
        kw["candlestick_type"] = h["candlestick_type"]
        if h.get("ctype_form") == "object":
            from hexital.utils.candlesticks import validate_candlesticktype

            kw["candlestick_type"] = validate_candlesticktype(h["candlestick_type"])
    return kw


def _given(spec, form):
    if form == "dict":
        return as_dict(spec)
    if form == "settings":
        return build(spec).settings
    return build(spec)


def _effective(spec, h):
    """Effective standalone configuration of a member (the inheritance the test-suite documents)."""
    common = dict(spec.get("common") or {})
    if not common.get("timeframe") and h.get("timeframe"):
        common["timeframe"] = h["timeframe"]
        common["_inherited_tf"] = True
    if h.get("timeframe_fill") and common.get("timeframe"):
        common["timeframe_fill"] = True
    if h.get("lifespan_s") is not None:
        common["lifespan_s"] = h["lifespan_s"]
    if h.get("candlestick_type"):
        common["candlestick_type"] = h["candlestick_type"]
    common.pop("_inherited_tf", None)
    return dict(spec, common=common)


def _spans_more_than(rows, lifespan_s):
    return bool(rows) and lifespan_s is not None and rows[-1][0] - rows[0][0] > lifespan_s


def execute(trace, ctx=None):
    def body(run):
        cfg = trace["config"]
        members, forms, h = list(cfg["members"]), list(cfg["forms"]), cfg["hexital"]
        names = [member_name(m) for m in members]
        if len(set(names)) != len(names):
            raise Discard("duplicate-names")
        hx = None
        twins = []
        delivered = []
        n_appends = 0
        restarted = False
        constructed_over_rows = False  # the Hexital was (re)built over a non-empty candle list
        construction_trimmed = False   # base candles were trimmed before a timeframe manager was built
        compared_reading = False
        label = "+".join(spec_label(m) for m in members)
        tfs = [m["common"].get("timeframe") for m in members] + [h.get("timeframe")]

        def member_objs():
            return list(hx.indicators.values())

        for i, op in enumerate(trace["ops"]):
            run.op_index = i
            kind = op["op"]
            if kind == "new":
                rows = op.get("preload") or []
                delivered.extend(rows)
                try:
                    twins = [build(_effective(m, h), rows) for m in members]
                    for t in twins:
                        t.calculate()
                except Exception as exc:  # noqa: BLE001
                    raise Discard("solo-twin-raised:" + type(exc).__name__)
                try:
                    given = [_given(m, f) for m, f in zip(members, forms)]
                    hx = run.call(filled_size(rows, tfs) * 6, Hexital, "sim", mk_candles(rows), given, **_hex_kwargs(h))
                    run.call(filled_size(rows, tfs) * 8, hx.calculate)
                except LibError as e:
                    form = ",".join(sorted(set(forms)))
                    raise Violation("construction-raises", "hexital", e.site, {"error": repr(e.exc), "forms": form})
                construction_trimmed = _spans_more_than(rows, h.get("lifespan_s"))
                constructed_over_rows = len(rows) > 1
                if len(hx.indicators) != len(members):
                    raise Violation("members-lost", "hexital", "count", {"registered": list(hx.indicators), "wanted": names})
            elif hx is None:
                continue
            elif kind == "append":
                rows = op["candles"]
                if rows and delivered and rows[0][0] < delivered[-1][0]:
                    continue
                delivered.extend(rows)
                n_appends += 1 if rows else 0
                try:
                    for t in twins:
                        t.append(mk_candles(rows))
                except Exception as exc:  # noqa: BLE001
                    raise Discard("solo-twin-raised:" + type(exc).__name__)
                try:
                    run.call(filled_size(delivered, tfs) * 8, hx.append, encode(rows, op.get("enc") or "candles") if rows else [])
                except LibError as e:
                    raise Violation("append-raises", "hexital", e.site, {"error": repr(e.exc)})
                continue
            elif kind in ("recalculate_all", "purge_all"):
                # a maintenance call on everything; the standalone twins get the same call
                try:
                    for t in twins:
                        (t.recalculate if kind == "recalculate_all" else t.purge)()
                        t.calculate()
                except Exception as exc:  # noqa: BLE001
                    raise Discard("solo-twin-raised:" + type(exc).__name__)
                try:
                    run.call(filled_size(delivered, tfs) * 8, hx.recalculate if kind == "recalculate_all" else hx.purge)
                    run.call(filled_size(delivered, tfs) * 8, hx.calculate)
                except LibError as e:
                    raise Violation("maintenance-raises", "hexital", e.site, {"error": repr(e.exc)})
                run.stats["maintenance_all"] += 1
            elif kind == "readd_same":
                # one member is taken out and the very same object is put back: like its solo twin recalculating
                if hx is None or not members:
                    continue
                k = op.get("target", 0) % len(members)
                obj = member_objs()[k]
                try:
                    twins[k].recalculate()
                except Exception as exc:  # noqa: BLE001
                    raise Discard("solo-twin-raised:" + type(exc).__name__)
                try:
                    run.call(filled_size(delivered, tfs) * 8, hx.remove_indicator, obj.name)
                    run.call(filled_size(delivered, tfs) * 8, hx.add_indicator, obj)
                    run.call(filled_size(delivered, tfs) * 8, hx.calculate)
                except LibError as e:
                    raise Violation("maintenance-raises", "hexital", e.site, {"error": repr(e.exc), "op": kind})
                # the member is now registered last
                for lst in (members, forms, names, twins):
                    lst.append(lst.pop(k))
                run.stats["reach:same_object_removed_and_added_again"] += 1
            elif kind == "restart":
                # process restart: only the settings dicts and the raw candles survive
                try:
                    settings = run.call(1000, lambda: hx.indicator_settings)
                    hx = run.call(filled_size(delivered, tfs) * 6, Hexital, "sim", mk_candles(delivered), settings, **_hex_kwargs(h))
                    run.call(filled_size(delivered, tfs) * 8, hx.calculate)
                except LibError as e:
                    raise Violation("restart-from-settings-raises", "hexital", e.site, {"error": repr(e.exc)})
                if len(hx.indicators) != len(members):
                    raise Violation("members-lost", "hexital", "restart", {"registered": list(hx.indicators), "wanted": names})
                try:
                    twins = [build(_effective(m, h), delivered) for m in members]
                    for t in twins:
                        t.calculate()
                except Exception as exc:  # noqa: BLE001
                    raise Discard("solo-twin-raised:" + type(exc).__name__)
                restarted = True
                construction_trimmed = _spans_more_than(delivered, h.get("lifespan_s"))
                constructed_over_rows = len(delivered) > 1
                run.stats["restarts"] += 1
            elif kind != "check":
                continue
            # ---- compare every member with its solo twin
            objs = member_objs()
            for k, (spec, twin) in enumerate(zip(members, twins)):
                ind = objs[k]
                got_c = [candle_core(c) for c in ind.candles]
                want_c = [candle_core(c) for c in twin.candles]
                if got_c != want_c:
                    j = next((x for x in range(min(len(got_c), len(want_c))) if got_c[x] != want_c[x]),
                             min(len(got_c), len(want_c)))
                    g = got_c[j] if j < len(got_c) else None
                    w = want_c[j] if j < len(want_c) else None
                    what = "count" if g is None or w is None else "label" if g[0] != w[0] else "ohlcv"
                    if construction_trimmed and j == 0 and ind.candle_manager is not hx._candles["default"]:
                        # the Hexital was (re)built over more history than its lifespan keeps: the base
                        # candles are trimmed BEFORE the member's timeframe manager is derived from them
                        raise Violation("member-candles-vs-solo", "timeframe-member",
                                        "first-retained-bucket-after-construction-trim",
                                        {"member": ind.name, "in_hexital": g, "solo": w, "hexital": h})
                    if (h.get("timeframe") and h.get("timeframe_fill") and spec["common"].get("timeframe")
                            and constructed_over_rows):
                        # with a Hexital-level timeframe AND fill, a member's wider timeframe manager is
                        # derived (at construction) from the already collapsed and gap-filled level
                        # candles, so inserted flat candles leak into its buckets
                        raise Violation("member-candles-vs-solo", "timeframe-member",
                                        "derived-from-filled-level-candles",
                                        {"member": ind.name, "index": j, "in_hexital": g, "solo": w, "hexital": h})
                    raise Violation("member-candles-vs-solo", spec_label(spec), what,
                                    {"member": ind.name, "index": j, "in_hexital": g, "solo": w,
                                     "hexital": h, "form": forms[k]})
                got = [freeze(c.indicators.get(ind.name)) for c in ind.candles]
                want = [freeze(c.indicators.get(twin.name)) for c in twin.candles]
                if got != want:
                    j = next(x for x in range(len(want)) if got[x] != want[x])
                    raise Violation("member-readings-vs-solo", spec_label(spec),
                                    ("form:" + forms[k]) if not restarted else "after-restart",
                                    {"member": ind.name, "index": j, "n": len(want), "in_hexital": got[j], "solo": want[j],
                                     "hexital": h})
                if any(v is not None for v in want):
                    compared_reading = True
            if not h.get("timeframe") and not h.get("candlestick_type"):
                base = [candle_core(c) for c in hx.candles()]
                raw = [tuple(r) for r in delivered][len(delivered) - len(base):] if base else []
                if base != raw:
                    raise Violation("base-candles-altered", "hexital", "ohlcv", {"n": len(base)})
            run.observe(kind, [len(o.candles) for o in objs])
            run.state(kind, len(hx._candles), bool(h.get("candlestick_type")), bool(h.get("timeframe")), restarted)
        if hx is None:
            raise Discard("no-new-op")
        run.nontrivial = compared_reading and (n_appends >= 2 or restarted)
    return run_property(ID, body, trace)


def simplify(trace):
    cfg = trace["config"]
    ms, fs = cfg["members"], cfg["forms"]
    if len(ms) > 1:
        for k in range(len(ms)):
            yield dict(trace, config=dict(cfg, members=ms[:k] + ms[k + 1:], forms=fs[:k] + fs[k + 1:]))
    h = cfg["hexital"]
    for key in ("lifespan_s", "candlestick_type", "timeframe_fill", "timeframe"):
        if h.get(key):
            yield dict(trace, config=dict(cfg, hexital=dict(h, **{key: None})))
    for k, f in enumerate(fs):
        if f != "object":
            f2 = list(fs)
            f2[k] = "object"
            yield dict(trace, config=dict(cfg, forms=f2))
