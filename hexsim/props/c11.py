"""C11 -- Heikin-Ashi conversion follows its recurrence under every append schedule.

Subject: real Indicator / Hexital with candlestick_type="HA" (with / without a collapsing
timeframe).  Oracles after every op: converted candles == HA reference over the reference-resampled
raw candles; every candle tagged once with its raw OHLCV recoverable from clean_values; readings ==
those of a plain twin computed on the converted values.  Gap filling stays off (the property does
not quantify over it).
"""
from __future__ import annotations

import math

from .. import planlib, refmodels, world
from ..catalogue import CLASSES, build, mk_candles, sample_spec, spec_label
from ..core import Discard, LibError, Violation, run_property
from ..subjects import build_route, member_of
from ..util import candle_core, freeze, secs, sub_rng, tf_seconds

ID = "C11"
LEVEL = "exploration"
SUBBATCHES = ("calm", "faulty")
REFERENCE_MODELS = ["resampler", "Heikin-Ashi recurrence (refmodels.heikin_ashi)"]
ROUTES = ("indicator", "indicator", "hexital_level", "hexital_member", "manager")
HA_TAG = "Heikin-Ashi"
RULE = ("seeded world loop (feed faults, chunked delivery from 0/1/2/k preloaded candles) executed on a real "
        "Indicator/Hexital/CandleManager with candlestick_type=HA; non-trivial = at least two candles were "
        "compared against the HA reference at a check point and the stream came in at least two non-empty "
        "appends (or a feed fault fired); distinct = distinct observable-state digests")


def plan(seed, subbatch):
    cfg = sub_rng(seed, "config")
    base_s, tf, tf_s = planlib.base_and_tf(cfg, 1.0, 12.0, p_none=0.5)
    n = planlib.pick_n(cfg, (2, 10), (4, 40), (20, 150))
    route = cfg.choice(ROUTES)
    if route == "hexital_member" and tf is None:
        route = "hexital_level"
    spec = sample_spec(cfg, cfg.choice(CLASSES), max_period=8, round_values=False)
    if subbatch == "calm":
        faults, burst, p_empty = {}, None, 0.0
    else:
        faults, burst, p_empty, _ = planlib.swarm_faults(cfg, base_s, tf_s, halt_buckets=(5, 30))
    start = world.pick_start(cfg, base_s, tf_s)
    feed = sub_rng(seed, "preload")
    # the property singles out objects that start from zero or one candle
    pre_k = feed.choice((0, 0, 0, 1, 1, 2, feed.randint(0, n), n))
    regimes, regime_len = None, (3, 40)
    if subbatch == "faulty" and cfg.random() < 0.4:
        regimes = world.REGIMES_NORMAL + cfg.sample(["stall", "stall0", "zerovol"], 2)
        regime_len = cfg.choice(((1, 10), (5, 40)))
    op_rng = sub_rng(seed, "operator")
    extras = []
    if route != "manager" and subbatch == "faulty":
        for _ in range(op_rng.choice((0, 0, 1, 3))):
            extras.append((op_rng.random(), {"op": op_rng.choice(("purge", "recalculate", "calculate"))}))
    # gap filling next to the conversion (not on a timeframe finer than the feed: every base interval would be a
    # gap of thousands of buckets; the span is capped like in the other checks that fill)
    fill = bool(tf) and tf_s >= base_s and sub_rng(seed, "fill").random() < 0.15
    pre, ops, fired, rows = planlib.stream_and_schedule(seed, subbatch, n, base_s, start, faults, burst,
                                                        p_empty, extras, preload=pre_k, regimes=regimes,
                                                        regime_len=regime_len,
                                                        max_span_s=(800 * tf_s if fill else None))
    fired["operator_ops"] += len(extras)
    if sub_rng(seed, "zero-open").random() < 0.06:
        # one candle that opens at exactly 0.0 (a legal float: its raw values must stay recoverable like any other)
        zr = sub_rng(seed, "zero-open-at")
        cands = [(op, j) for op in ([{"candles": pre}] + ops) for j in range(len(op.get("candles") or []))]
        if cands:
            op, j = zr.choice(cands)
            r = op["candles"][j]
            op["candles"][j] = [r[0], 0.0, r[2], 0.0, r[4], r[5]]
            fired["candle_opening_at_zero"] += 1
    # occasionally a candle lifespan on top: conversion must still follow the recurrence over the
    # WHOLE stream, of which the retained window is a suffix
    lifespan = None
    if cfg.random() < 0.25:
        lifespan = (tf_s or base_s) * cfg.randint(3, 40)
        fired["lifespan_configured"] += 1
        if route == "hexital_member":
            # a member's own timeframe manager is derived from the already trimmed base candles at
            # construction (known finding C08/construction-trim): not this property's subject
            route = "hexital_level"
    # the caller may hand the same Candle OBJECTS to several consumers: an upstream Heikin-Ashi consumer
    # without timeframe converts them in place before the subject (which has a timeframe) gets them
    shared = tf is not None and subbatch == "faulty" and cfg.random() < 0.25
    if shared:
        fired["candle_objects_shared_with_upstream_consumer"] += 1
    # other members of the same Hexital on coarser multiples of the timeframe: every manager of a Hexital is
    # served by the same converter object, each must still follow its own recurrence
    siblings = []
    fam = sub_rng(seed, "family")
    if route in ("hexital_member", "hexital_level") and tf and lifespan is None and fam.random() < 0.3:
        unit, k = tf[0], int(tf[1:])
        for mult in fam.sample((2, 3, 4, 6), fam.randint(1, 2)):
            siblings.append([f"{unit}{k * mult}", fam.random() < 0.6])
        fired["sibling_members_on_coarser_timeframes"] += 1
    return {"format": 1, "property": ID, "seed": seed, "subbatch": subbatch,
            "config": {"sim_now": planlib.pick_sim_now(sub_rng(seed, "sim-now"), rows), "route": route, "tf": tf, "base_s": base_s, "spec": spec, "lifespan_s": lifespan,
                       "shared_objects": shared, "siblings": siblings,
                       # gap filling next to the conversion: the recurrence runs over the FILLED collapsed series
                       "fill": fill, "carried_readings": sub_rng(seed, "carried").random() < 0.1},
            "ops": [{"op": "new", "preload": pre}] + ops, "fired": dict(fired)}


def span_of(rows):
    return rows[-1][0] - rows[0][0] if rows else 0


def _close(a, b):
    return a == b or math.isclose(a, b, rel_tol=1e-9, abs_tol=1e-12)


def execute(trace, ctx=None):
    def body(run):
        cfg = trace["config"]
        tf, route, spec = cfg["tf"], cfg["route"], cfg["spec"]
        tf_s = tf_seconds(tf) if tf else None
        label = spec_label(spec) if route != "manager" else "manager"
        lifespan = cfg.get("lifespan_s")
        life_armed = True
        readings_purged = False
        upstream = None
        if cfg.get("shared_objects") and tf:
            from hexital.core.candle_manager import CandleManager
            from hexital.utils.candlesticks import validate_candlesticktype

            upstream = CandleManager([], candlestick_type=validate_candlesticktype("HA"))
        delivered = []
        subject = view = None
        n_appends = 0
        compared = 0
        n_ops = len(trace["ops"])
        for i, op in enumerate(trace["ops"]):
            run.op_index = i
            kind = op["op"]
            try:
                if kind == "new":
                    rows = op.get("preload") or []
                    delivered.extend(rows)
                    subject, _m, view = run.call(len(rows) + (span_of(rows) // tf_s if tf_s and cfg.get("fill") else 0),
                                                 build_route, route, tf, rows, bool(cfg.get("fill")), lifespan,
                                                 "HA", spec, None, cfg.get("siblings"))
                elif subject is None:
                    continue
                elif kind == "append":
                    rows = op["candles"]
                    if rows and delivered and rows[0][0] < delivered[-1][0]:
                        run.stats["guard_skip:append_order"] += 1
                        continue
                    n_appends += 1 if rows else 0
                    delivered.extend(rows)
                    objs = mk_candles(rows)
                    if cfg.get("carried_readings") and tf is None and member_of(route, subject) is not None:
                        # the caller's Candle objects already carry a reading under the member's name (taken from
                        # another pipeline that worked on raw values): conversion wipes what a candle carries
                        for cobj in objs:
                            cobj.indicators[member_of(route, subject).name] = 777.0
                        run.stats["reach:candles_arriving_with_readings"] += 1
                    if upstream is not None and objs:
                        upstream.append(objs)   # converts the caller's objects in place
                    run.call(len(delivered) + (span_of(delivered) // tf_s if tf_s and cfg.get("fill") else 0),
                             subject.append, objs)
                    if rows:
                        readings_purged = False
                elif kind in ("purge", "recalculate", "calculate") and route != "manager":
                    # operator actions between arrivals: they concern readings only and must leave the
                    # converted candles (values, tag, recoverable raw values) exactly as they are
                    run.call((len(delivered) + (span_of(delivered) // tf_s if tf_s and cfg.get("fill") else 0)) * 4,
                             getattr(subject, kind))
                    run.stats["operator:" + kind] += 1
                    readings_purged = kind == "purge"
                else:
                    continue
            except LibError as e:
                # a member indicator that raises on its input is C09's subject; conversion / manager
                # failures are this property's
                if any(f in e.site for f in ("candlestick_type.py", "heikinashi.py", "candle.py",
                                             "candle_manager.py", "hexital.py", "timeframe.py", "StepBudget")):
                    raise Violation("exception", route, e.site, {"error": repr(e.exc), "op": kind})
                raise Discard("member-indicator-raised:" + e.type)
            candles = view()
            raw = refmodels.resample(delivered, tf_s) if tf_s else [list(r) for r in delivered]
            if tf_s and cfg.get("fill"):
                raw = refmodels.fill(raw, tf_s)[0]
            want = refmodels.heikin_ashi(raw)
            if lifespan is not None and want:
                keep = refmodels.trim([w[0] for w in want], lifespan)
                if len(keep) < 2 <= len(want):
                    # the open bucket lost its predecessor: re-converting it after a merge cannot follow
                    # the recurrence any more (C15's "look-back still retained" precondition) -> stand down
                    life_armed = False
                    run.stats["guard:lifespan_window_below_two_stood_down"] += 1
                want = [want[k] for k in keep]
                raw = [raw[k] for k in keep]
            if not life_armed:
                continue
            run.observe(kind, [candle_core(c) for c in candles])
            if len(candles) != len(want):
                raise Violation("ha-reference", route, "count", {"got": len(candles), "want": len(want)})
            for j, (c, w, r) in enumerate(zip(candles, want, raw)):
                g = candle_core(c)
                if g[0] != w[0]:
                    raise Violation("ha-reference", route, "timestamp", {"index": j, "got": g, "want": w})
                if g[5] != w[5]:
                    raise Violation("ha-reference", route, "volume", {"index": j, "got": g, "want": w})
                if not all(_close(a, b) for a, b in zip(g[1:5], w[1:5])):
                    pos = "first" if j == 0 else "last" if j == len(want) - 1 else "inner"
                    if lifespan is not None:
                        pos += ":lifespan"
                    unconverted = all(_close(a, b) for a, b in zip(g[1:5], r[1:5]))
                    raise Violation("ha-reference", route,
                                    "ohlc:" + ("unconverted" if unconverted else "wrong") + ":" + pos,
                                    {"index": j, "got": g, "want": w, "raw": r})
                if c.tag != HA_TAG:
                    raise Violation("tag", route, "missing", {"index": j, "tag": c.tag})
                cv = c.clean_values or {}
                rec = tuple(cv.get(k) for k in ("open", "high", "low", "close", "volume"))
                if rec != tuple(r[1:6]):
                    raise Violation("raw-recoverable", route, "clean_values",
                                    {"index": j, "clean": rec, "raw": r[1:6]})
                compared += 1
            run.state(kind, min(len(candles), 3), tf is not None)
            # readings are computed on the converted values (batch twin over the converted candles)
            member = member_of(route, subject)
            if (member is not None and candles and lifespan is None and not readings_purged
                    and (i == n_ops - 1 or i % 7 == 3)):
                if kind == "new":
                    try:
                        run.call(len(delivered), subject.calculate)
                    except LibError:
                        raise Discard("exception-in-calculate")
                conv_rows = [[secs(c.timestamp), c.open, c.high, c.low, c.close, c.volume] for c in candles]
                twin = build(dict(spec, common={k: v for k, v in (spec.get("common") or {}).items()}),
                             conv_rows)
                try:
                    twin.calculate()
                except Exception:  # noqa: BLE001 - totality is C09's subject
                    raise Discard("exception-in-twin")
                for j, (c, t) in enumerate(zip(candles, twin.candles)):
                    a = freeze(c.indicators.get(member.name))
                    b = freeze(t.indicators.get(twin.name))
                    if a != b:
                        raise Violation("readings-on-converted", label, "differ",
                                        {"index": j, "got": a, "twin": b, "of": len(candles)})
                run.stats["twin_comparisons"] += 1
        if subject is None:
            raise Discard("no-new-op")
        run.stats["reach:candles_compared"] += compared
        pre_n = len(trace["ops"][0].get("preload") or [])
        run.stats["reach:start_from_%s" % ("empty" if pre_n == 0 else "one" if pre_n == 1 else "more")] += 1
        run.nontrivial = compared >= 2 and (n_appends >= 2 or planlib.feed_fired(trace.get("fired")))
    return run_property(ID, body, trace)


def simplify(trace):
    cfg = trace["config"]
    if cfg["route"] not in ("indicator", "manager"):
        yield dict(trace, config=dict(cfg, route="indicator"))
    if cfg["spec"]["cls"] != "EMA":
        yield dict(trace, config=dict(cfg, spec={"cls": "EMA", "params": {"period": 2}, "common": {}}))
    if cfg["tf"] is not None:
        yield dict(trace, config=dict(cfg, tf=None, route="indicator" if cfg["route"] == "hexital_member" else cfg["route"]))
