"""C19 -- reading state and converting input have no hidden side effects.

The simulated OBSERVER issues read-only calls at arbitrary moments between the FEED's appends (in
every accepted encoding) on a real indicator or multi-timeframe Hexital in arbitrary states.
Oracles: (1) deep snapshot of the object graph identical before and after each observer call;
(2) the object stays usable and ends equal to a PROBE-FREE twin that got the same appends in the same
encodings; (3) caller-owned containers handed to append are unchanged; (4) that twin equals a twin
fed plain Candle objects, in EVERY timeframe manager (same candle delivered to every timeframe).
"""
from __future__ import annotations

import copy

from .. import planlib, refmodels, world
from ..catalogue import ENCODINGS, ENCODINGS_EXTRA, encode, sample_members, sample_spec, spec_label
from ..core import Discard, LibError, Violation, run_property
from ..deepsnap import deep_snapshot, first_difference
from ..machine import Machine
from ..util import candle_core, sub_rng, tf_seconds

ID = "C19"
LEVEL = "exploration"
SUBBATCHES = ("calm", "faulty")
REFERENCE_MODELS = ["probe-free twin (same appends and encodings, no observer call)",
                    "Candle-fed twin (same appends as Candle objects)"]
RULE = ("seeded interleaving of observer calls with appends in sampled encodings on a real indicator or "
        "multi-timeframe Hexital; non-trivial = at least two observer calls were made on a state with candles and "
        "at least two non-empty appends were delivered; distinct = distinct digests of (trace, final states)")

IND_PROBES = ("str", "repr", "name", "settings", "has_reading", "reading", "reading_idx", "prev_reading", "as_list",
              "as_list_named", "reading_count", "reading_period", "candles_sum", "read_candle")
HEX_PROBES = ("reading", "reading_idx", "prev_reading", "has_reading", "reading_as_list", "indicators",
              "indicator_settings", "timeframes", "get_candles", "candles", "candles_tf", "member_str", "member_settings",
              "member_as_list", "member_has_reading", "member_reading")


def plan(seed, subbatch):
    cfg = sub_rng(seed, "config")
    kind = "hexital" if cfg.random() < 0.55 else "indicator"
    base_s, tf, tf_s = planlib.base_and_tf(cfg, 1.0, 6.0, p_none=0.4, allow_finer=False)
    if kind == "indicator":
        spec = sample_spec(cfg, max_period=8)
        if tf:
            spec["common"]["timeframe"] = tf
        members, hexcfg = [spec], None
    else:
        tfs = [None] + ([tf, tf, world.pick_timeframe(cfg, base_s, 2.0, 12.0, allow_finer=False)] if tf else [])
        hexcfg = {}
        if tf and sub_rng(seed, "level").random() < 0.25:
            # the Hexital collapses to tf itself; members name the same timeframe explicitly or inherit it
            hexcfg["timeframe"] = tf
            tfs = [None, tf]
        members = sample_members(cfg, cfg.randint(1, 3), tfs, max_period=8)
    n = planlib.pick_n(cfg, (1, 10), (5, 40), (20, 120))
    encs = list(ENCODINGS)
    if subbatch == "faulty":
        faults, burst, _pe, _k = planlib.swarm_faults(cfg, base_s, tf_s, allowed=("drop", "dup", "burst", "empty"))
        encs += ENCODINGS_EXTRA
    else:
        faults, burst = {}, None
    ob = sub_rng(seed, "observer")
    n_probe = ob.choice((ob.randint(1, 4), ob.randint(3, 15), ob.randint(10, 60)))
    probes = IND_PROBES if kind == "indicator" else HEX_PROBES
    extras = []
    for _ in range(n_probe):
        extras.append((ob.random(), {"op": "probe", "what": ob.choice(probes), "target": ob.randint(0, 2),
                                     "arg": ob.randint(0, 12), "pos": ob.random()}))
    if ob.random() < 0.25:
        extras.append((ob.random(), {"op": "purge", "target": ob.randint(0, 2)}))
    if kind == "hexital" and ob.random() < 0.3:
        extras.append((ob.random(), {"op": "remove", "target": ob.randint(0, 2)}))
    start = world.pick_start(cfg, base_s, tf_s)
    pre, ops, fired, rows = planlib.stream_and_schedule(seed, subbatch, n, base_s, start, faults, burst, 0.0, extras,
                                                        encodings=encs, preload=cfg.choice((0, 0, 1, 3)))
    fired["observer_calls"] += n_probe
    if kind == "indicator" and sub_rng(seed, "raw-manager").random() < 0.2:
        rm = sub_rng(seed, "raw-manager-at")
        for op in ops:
            if op["op"] == "append" and op.get("candles") and rm.random() < 0.3:
                op["raw_manager"] = True
    fx = sub_rng(seed, "features")
    converted = fx.random() < 0.15
    if converted:
        # a candlestick type: converted in place, raw values kept aside - none of which a read may disturb
        if fx.random() < 0.5:
            # ... with a member that looks at the candles' own geometry (body, range, shadows)
            from ..catalogue import PATTERNS, sample_analysis

            pat = fx.choice(PATTERNS)
            cand = {"cls": "Amorph", "analysis": pat, "params": sample_analysis(fx, pat),
                    "common": {k: v for k, v in members[-1]["common"].items() if k in ("timeframe", "tf_as_enum", "tf_lower")}}
            from ..catalogue import member_name

            if member_name(cand) not in {member_name(m) for m in members[:-1]}:
                members[-1] = cand
        if kind == "hexital":
            hexcfg["candlestick_type"] = "HA"
        else:
            members[0]["common"]["candlestick_type"] = "HA"
    # timezone-aware streams (fixed offset); with offset 0 the ISO encodings alternate "+00:00" and "Z"
    offset = sub_rng(seed, "aware").choice((None, None, None, 0, 0, 60, -210))
    return {"format": 1, "property": ID, "seed": seed, "subbatch": subbatch,
            "config": {"kind": kind, "members": members, "hexital": hexcfg, "base_s": base_s,
                       "utc_offset_min": offset,
                       # read-only looks at the caller's own Candle objects BEFORE they are handed to append
                       "candle_pre_read": sub_rng(seed, "candle-pre-read").random() < (0.6 if converted else 0.2),
                       "pre_probe": (sub_rng(seed, "pre-probe").sample(["str", "repr", "settings", "name", "has_reading", "as_list",
                                                                         "reading_count"], 2)
                                     if sub_rng(seed, "pre-probe-p").random() < 0.25 else [])},
            "ops": [{"op": "new", "preload": pre}] + ops + [{"op": "final"}], "fired": dict(fired)}


def _probe(m, op):
    """Perform one read-only call; exceptions from the accessor itself are tolerated (returned)."""
    what, arg = op["what"], op.get("arg", 0)
    slot = m.slot(op.get("target", 0))
    sub = m.subject
    name = slot.name if slot else "none"
    field = None
    if slot is not None and slot.ind.candles:
        v = slot.ind.candles[-1].indicators.get(name)
        if isinstance(v, dict) and v:
            field = name + "." + sorted(v)[arg % len(v)]
    n = len(slot.ind.candles) if slot else 0
    idx = int(op.get("pos", 0) * n) - (n if arg % 2 else 0) if n else 0
    if m.kind == "indicator":
        ind = sub
        calls = {
            "str": lambda: str(ind), "repr": lambda: repr(ind), "name": lambda: ind.name,
            "settings": lambda: ind.settings, "has_reading": lambda: ind.has_reading,
            "reading": lambda: ind.reading(), "reading_idx": lambda: ind.reading(field or name, idx),
            "prev_reading": lambda: ind.prev_reading(), "as_list": lambda: ind.as_list(),
            "as_list_named": lambda: ind.as_list(field or "close"), "reading_count": lambda: ind.reading_count(),
            "reading_period": lambda: ind.reading_period(1 + arg), "candles_sum": lambda: ind.candles_sum(1 + arg, "close"),
            "read_candle": lambda: ind.read_candle(ind.candles[idx]) if ind.candles else None,
        }
    else:
        hx = sub
        tfs = [k for k in hx._candles if k != "default"]
        member = slot.ind if slot else None
        calls = {
            "reading": lambda: hx.reading(field or name), "reading_idx": lambda: hx.reading(name, idx),
            "prev_reading": lambda: hx.prev_reading(name), "has_reading": lambda: hx.has_reading(name),
            "reading_as_list": lambda: hx.reading_as_list(field or name), "indicators": lambda: hx.indicators,
            "indicator_settings": lambda: hx.indicator_settings, "timeframes": lambda: hx.timeframes,
            "get_candles": lambda: hx.get_candles(), "candles": lambda: hx.candles(),
            "candles_tf": lambda: hx.candles(tfs[arg % len(tfs)]) if tfs else hx.candles("T1"),
            "member_str": lambda: str(member), "member_settings": lambda: member.settings,
            "member_as_list": lambda: member.as_list(), "member_has_reading": lambda: member.has_reading,
            "member_reading": lambda: member.reading(),
        }
    fn = calls[what]
    try:
        got = fn()
        if what in ("settings", "member_settings", "indicator_settings"):
            # a settings dict is handed out for the caller to keep, clone and edit (the library deep-copies its
            # values); readings, by contrast, are handed out by reference and are not scribbled on
            _scribble(got)
        return None
    except Exception as exc:  # noqa: BLE001 - an accessor may refuse (e.g. empty list); it must still not mutate
        return type(exc).__name__


def _scribble(obj, depth=0):
    """Modify a returned value in place (dicts and lists, recursively): the caller owns what it was handed."""
    if depth > 3:
        return
    if isinstance(obj, dict):
        for k in list(obj):
            v = obj[k]
            if isinstance(v, (dict, list)):
                _scribble(v, depth + 1)
            elif isinstance(v, (int, float)) and not isinstance(v, bool):
                obj[k] = 97
        obj["__scribbled__"] = 1
    elif isinstance(obj, list):
        for v in obj:
            if isinstance(v, (dict, list)):
                _scribble(v, depth + 1)
        obj.append("__scribbled__")


def raw_core(c):
    """(ts, o, h, l, c, v) of a candle with any candlestick conversion undone (raw values live in clean_values)."""
    cv = c.clean_values or {}
    t = candle_core(c)
    return (t[0],) + tuple(cv.get(k, getattr(c, k)) for k in ("open", "high", "low", "close", "volume"))


def _states(m):
    return {name: snap for name, snap in m.snapshot().items()}


def execute(trace, ctx=None):
    from .. import catalogue

    catalogue.TZ_OFFSET_MIN = trace["config"].get("utc_offset_min")

    def body(run):
        cfg = trace["config"]
        label = "+".join(spec_label(s) for s in cfg["members"])
        if cfg.get("utc_offset_min") is not None:
            run.stats["reach:timezone_aware_stream"] += 1
        subj = Machine(run, cfg)          # probes + sampled encodings
        if cfg.get("pre_probe"):
            # read-only calls on the freshly built objects, BEFORE they are registered in a Hexital or calculated
            def pre(ind):
                for what in cfg["pre_probe"]:
                    try:
                        {"str": lambda: str(ind), "repr": lambda: repr(ind), "settings": lambda: ind.settings,
                         "name": lambda: ind.name, "has_reading": lambda: ind.has_reading,
                         "as_list": lambda: ind.as_list(), "reading_count": lambda: ind.reading_count()}[what]()
                    except Exception:  # noqa: BLE001 - an accessor may refuse on an empty object
                        pass
                run.stats["reach:read_only_calls_before_registration"] += len(cfg["pre_probe"])
            subj.pre_hook = pre
        free = Machine(run, cfg)          # no probes, same encodings
        plain = Machine(run, cfg)         # no probes, Candle objects
        probes_done = 0
        removed_any = False
        n_appends = 0
        encs_used = set()
        for i, op in enumerate(trace["ops"]):
            run.op_index = i
            kind = op["op"]
            if kind == "new":
                rows = op.get("preload") or []
                try:
                    for mm in (subj, free, plain):
                        mm.new(rows)
                except LibError as e:
                    raise Discard("construction-raised:" + e.type)
                continue
            if subj.subject is None:
                continue
            if kind == "append":
                rows = op["candles"]
                if rows and subj.delivered and rows[0][0] < subj.delivered[-1][0]:
                    continue
                enc = op.get("enc", "candles")
                if op.get("raw_manager") and subj.kind == "indicator" and rows:
                    # the candles reach the candle manager directly: the list grows, nothing is calculated, the
                    # cursor stays where it was - a state read-only calls must leave alone like any other
                    try:
                        for mm in (plain, free, subj):
                            mm.delivered.extend(rows)
                            run.call(len(mm.delivered) * 6, mm.subject.candle_manager.append, encode(rows, "candles"))
                    except LibError as e:
                        raise Discard("manager-append-raised:" + e.type)
                    run.stats["reach:list_grown_without_calculation"] += 1
                    n_appends += 1
                    continue
                # --- the Candle-fed twin first: if IT raises the stream itself is C09's business
                try:
                    plain.append(rows, "candles")
                except LibError as e:
                    raise Discard("plain-twin-raised:" + e.type)
                # --- the probe-free twin with the same encoding: a failure here is the encoding's
                try:
                    free.append(rows, enc)
                except LibError as e:
                    raise Violation("append-rejects-encoding", "encoding", f"{enc}:{e.site}",
                                    {"error": repr(e.exc), "enc": enc})
                payload = encode(rows, enc) if rows else []
                if cfg.get("candle_pre_read") and enc in ("candle", "candles") and rows:
                    for cobj in (payload if isinstance(payload, list) else [payload]):
                        for attr in ("high_low", "realbody", "positive", "negative", "shadow_upper", "shadow_lower"):
                            getattr(cobj, attr, None)
                        repr(cobj)
                    run.stats["reach:candle_objects_read_before_append"] += 1
                keep = copy.deepcopy(payload)
                subj.delivered.extend(rows)
                try:
                    run.call(len(subj.delivered) * 6, subj.subject.append, payload)
                except LibError as e:
                    raise Violation("usable-after-probe", label, e.site,
                                    {"error": repr(e.exc), "enc": enc, "after_probes": probes_done})
                if enc not in ("candle", "candles") and payload != keep:
                    raise Violation("caller-container-mutated", "encoding", enc.replace("lists", "list").replace("dicts", "dict"),
                                    {"before": str(keep)[:200], "after": str(payload)[:200]})
                n_appends += 1 if rows else 0
                encs_used.add(enc)
                continue
            if kind == "purge":
                try:
                    for mm in (subj, free, plain):
                        s = mm.slot(op.get("target", 0))
                        mm.purge(s)
                except LibError as e:
                    raise Violation("usable-after-probe", label, e.site, {"error": repr(e.exc), "op": "purge"})
                continue
            if kind == "remove":
                if subj.kind != "hexital" or len(subj.live_slots()) < 2:
                    continue
                try:
                    for mm in (subj, free, plain):
                        mm.remove(mm.slot(op.get("target", 0)))
                except LibError as e:
                    raise Violation("usable-after-probe", label, e.site, {"error": repr(e.exc), "op": "remove"})
                removed_any = True
                continue
            if kind == "probe":
                before = deep_snapshot(subj.subject)
                raised = _probe(subj, op)
                after = deep_snapshot(subj.subject)
                probes_done += 1
                run.stats["probe:" + op["what"]] += 1
                if raised:
                    run.stats["probe_raised:" + op["what"]] += 1
                if before != after:
                    raise Violation("observer-mutates", subj.kind, op["what"],
                                    {"where": first_difference(before, after), "raised": raised})
                continue
            if kind == "final":
                try:
                    for mm in (subj, free, plain):
                        mm.calculate(None)
                except LibError as e:
                    if probes_done:
                        raise Violation("usable-after-probe", label, e.site, {"error": repr(e.exc), "op": "calculate"})
                    raise Discard("final-calculate-raised:" + e.type)
                a, b, c = _states(subj), _states(free), _states(plain)
                if a != b:
                    raise Violation("vs-probe-free-twin", label, "final-state-differs",
                                    {"managers": sorted(a), "sizes": {k: (len(a[k]), len(b.get(k, []))) for k in a}})
                if b != c:
                    mgr = next(k for k in sorted(set(b) | set(c)) if b.get(k) != c.get(k))
                    what = "count" if len(b.get(mgr, [])) != len(c.get(mgr, [])) else "values"
                    raise Violation("encoding-vs-candle-twin", "encoding", f"{what}:{'default' if mgr in ('default', 'self') else 'timeframe'}",
                                    {"manager": mgr, "n_encoded": len(b.get(mgr, [])), "n_candle": len(c.get(mgr, [])),
                                     "encodings": sorted(encs_used)})
                # the same candle data means the same instant: awareness and offset of every stored timestamp
                for name in sorted(free.managers()):
                    off_b = [x.timestamp.utcoffset() if x.timestamp else None for x in free.managers()[name]]
                    off_c = [x.timestamp.utcoffset() if x.timestamp else None for x in plain.managers()[name]]
                    if off_b != off_c:
                        k = next(i for i in range(min(len(off_b), len(off_c))) if off_b[i] != off_c[i])
                        raise Violation("encoding-vs-candle-twin", "encoding", "timestamp-offset",
                                        {"manager": name, "index": k, "encoded": str(off_b[k]), "candle": str(off_c[k]),
                                         "encodings": sorted(encs_used)})
                # "delivers the same candle to every timeframe of a Hexital": every candle manager the
                # Hexital lists must hold exactly the reference resampling of everything delivered
                if subj.kind == "hexital":
                    converted = bool((cfg.get("hexital") or {}).get("candlestick_type"))
                    for name, mgr in subj.subject._candles.items():
                        got = [raw_core(c) for c in mgr.candles] if converted else [c[:6] for c in a[name]]
                        if mgr.timeframe:
                            want = [tuple(r) for r in refmodels.resample(subj.delivered, tf_seconds(mgr.timeframe))]
                        else:
                            want = [tuple(r) for r in subj.delivered]
                        if got != want:
                            raise Violation("manager-vs-reference", "hexital",
                                            ("timeframe" if mgr.timeframe else "default") + (":after-remove" if removed_any else ""),
                                            {"manager": name, "n_got": len(got), "n_want": len(want)})
                    # ... and every registered MEMBER must be looking at such a list (a manager dropped from the
                    # Hexital's registry while members still use it would no longer be fed)
                    level = (cfg.get("hexital") or {}).get("timeframe")
                    for sl in subj.live_slots():
                        eff = sl.spec["common"].get("timeframe") or level
                        got = [raw_core(c) if converted else candle_core(c) for c in sl.ind.candles]
                        want = ([tuple(r) for r in refmodels.resample(subj.delivered, tf_seconds(eff))] if eff
                                else [tuple(r) for r in subj.delivered])
                        if got != want:
                            raise Violation("member-candles-vs-reference", "hexital",
                                            ("timeframe" if eff else "default") + (":after-remove" if removed_any else ""),
                                            {"member": sl.name, "n_got": len(got), "n_want": len(want)})
                run.observe("final", a)
        if subj.subject is None:
            raise Discard("no-new-op")
        run.state(subj.kind, len(subj.managers()), min(probes_done, 3), tuple(sorted(encs_used))[:3])
        run.stats["reach:observer_calls"] += probes_done
        run.nontrivial = probes_done >= 2 and n_appends >= 2
    return run_property(ID, body, trace)


def simplify(trace):
    cfg = trace["config"]
    if cfg["kind"] == "hexital" and len(cfg["members"]) > 1:
        for k in range(len(cfg["members"])):
            yield dict(trace, config=dict(cfg, members=cfg["members"][:k] + cfg["members"][k + 1:]))
    ops = trace["ops"]
    for i, op in enumerate(ops):
        if op["op"] == "append" and op.get("enc") not in (None, "candles"):
            o2 = list(ops)
            o2[i] = dict(op, enc="candles")
            yield dict(trace, ops=o2)
