"""C13 -- indicators sharing candles do not interfere with one another.

Subject: real Hexitals whose member names are chosen adversarially (one name a substring / prefix of
another; composites whose internal helper carries a default name that is also a legal top-level
name, the top-level partner given a DIFFERENT input), registered in both orders, driven by appends
and by operator actions aimed at one member (purge / recalculate / remove / calculate).
Oracle: every other member's column equals the column of a solo twin (a Hexital holding only that
member, same arrivals, same schedule) and is bit-identical immediately before and after each action
aimed at someone else.
"""
from __future__ import annotations

from .. import planlib, world
from ..catalogue import helper_collision, member_name, sample_members, spec_label
from ..core import Discard, LibError, Violation, run_property
from ..machine import Machine
from ..util import freeze, sub_rng, tf_seconds

ID = "C13"
LEVEL = "exploration"
SUBBATCHES = ("calm", "faulty")
REFERENCE_MODELS = ["solo twin: a Hexital holding only the observed member, same arrivals and schedule"]
RULE = ("seeded member sets with adversarial name relations in both registration orders, chunked delivery and "
        "operator actions aimed at one member; non-trivial = an observed member had a non-None reading compared "
        "with its solo twin and at least one action aimed at another member was applied (or, without actions, at "
        "least two appends); distinct = distinct digests of (trace, observed columns)")
ACTIONS = ("purge", "recalculate", "remove", "calculate", "purge", "recalculate")


def _spec(cls, params=None, **common):
    return {"cls": cls, "params": params or {}, "common": common}


def adversarial_pair(rng, tf):
    """(a, b, relation): a is aimed at, b is observed (roles are also swapped by the caller)."""
    p = rng.randint(2, 9)
    other_input = rng.choice(("high", "low", "open"))
    kind = rng.choice(("substring", "substring", "helper_sma", "helper_stdev", "helper_tr", "tf_suffix",
                       "override_prefix", "suffix", "helper_class", "helper_class", "shared_args", "case_only"))
    if kind == "case_only":
        # two names that differ only in the case of their letters
        cls = rng.choice(("SMA", "EMA", "RSI", "StandardDeviation"))
        if rng.random() < 0.5:
            return (_spec(cls, {"period": p}, fullname_override="trend"),
                    _spec(cls, {"period": p + 1}, fullname_override="TREND"), kind)
        return (_spec(cls, {"period": p}, name_suffix="a"),
                _spec(cls, {"period": p, "input_value": other_input}, name_suffix="A"), kind)
    if kind == "shared_args":
        # two wrapped movement functions given as configuration dicts whose "args" is the SAME dict object
        # (the common argument written once by the caller), each with a loose keyword of its own
        one = rng.choice(("close", "high", "low"))
        fa, fb = rng.sample(("cross", "crossover", "crossunder"), 2)
        ta, tb = rng.sample(("open", "volume", "high", "low", "close"), 2)

        def wrapped(fn, two):
            return {"cls": "Amorph", "analysis": fn, "params": {"indicator_one": one, "indicator_two": two}, "common": {},
                    "shared_args": {"key": "common", "args": {"indicator_one": one}, "loose": {"indicator_two": two}}}
        return wrapped(fa, ta), wrapped(fb, tb), kind
    if kind == "helper_class":
        # the composite's helpers are named after their owner today; a partner with the helper's CLASS,
        # the same period and another input / rounding has the name the helper would have by default
        pairs = (
            ("KC", {"period": p}, "ATR", {"period": p}), ("KC", {"period": p}, "EMA", {"period": p, "input_value": other_input}),
            ("Supertrend", {"period": p}, "ATR", {"period": p}), ("ADX", {"period": min(p, 6)}, "ATR", {"period": min(p, 6)}),
            ("ADX", {"period": min(p, 6)}, "RMA", {"period": min(p, 6), "input_value": other_input}),
            ("MACD", {"fast_period": p, "slow_period": p + 3, "signal_period": 2}, "EMA", {"period": p, "input_value": other_input}),
            ("HMA", {"period": max(p, 4)}, "WMA", {"period": max(p, 4), "input_value": other_input}),
            ("StandardDeviationThreshold", {"period": p}, "StandardDeviation", {"period": p, "input_value": other_input}),
            ("TSI", {"period": p}, "EMA", {"period": p, "input_value": other_input}),
            ("STOCH", {"period": p, "slow_period": 3, "smoothing_k": 3}, "SMA", {"period": 3, "input_value": other_input}),
        )
        ca, pa, cb, pb = rng.choice(pairs)
        b = _spec(cb, pb)
        if rng.random() < 0.6:
            b["common"]["round_value"] = rng.choice((0, 1, 2, 6))
        return _spec(ca, pa), b, kind
    if kind == "substring":
        cls = rng.choice(("SMA", "EMA", "WMA", "RMA", "RSI", "ATR", "VWMA", "StandardDeviation", "VWAP", "STOCH"))
        a = _spec(cls, {"period": p})
        b = _spec(cls, {"period": p * 10 + rng.randint(0, 9)})
        return a, b, kind
    if kind == "helper_sma":
        return _spec("BBANDS", {"period": p}), _spec("SMA", {"period": p, "input_value": other_input}), kind
    if kind == "helper_stdev":
        return (_spec("BBANDS", {"period": p}),
                _spec("StandardDeviation", {"period": p, "input_value": other_input}), kind)
    if kind == "helper_tr":
        owner = rng.choice((_spec("ATR", {"period": p}), _spec("KC", {"period": p}),
                            _spec("ADX", {"period": min(p, 6)}), _spec("Supertrend", {"period": p})))
        return owner, _spec("TR"), kind
    if kind == "tf_suffix" and tf:
        cls = rng.choice(("SMA", "EMA", "VWAP", "OBV", "HighLowAverage", "TR"))
        params = {"period": p} if cls in ("SMA", "EMA", "VWAP") else {}
        return _spec(cls, params), _spec(cls, params, timeframe=tf), kind
    if kind == "override_prefix":
        return (_spec("EMA", {"period": p}, fullname_override="X"),
                _spec("SMA", {"period": p + 1}, fullname_override="X_2"), "override_prefix")
    cls = rng.choice(("SMA", "EMA", "RSI", "StandardDeviation", "VWAP", "STOCH", "TSI", "Supertrend", "ADX", "MACD"))
    params = {"period": p} if cls != "MACD" else {"fast_period": 2, "slow_period": 2 + p, "signal_period": 2}
    if cls == "ADX":
        params = {"period": min(p, 6)}
    return (_spec(cls, params), _spec(cls, params, name_suffix=rng.choice(("b", "high", "2"))), "suffix")


def plan(seed, subbatch):
    cfg = sub_rng(seed, "config")
    base_s, tf, tf_s = planlib.base_and_tf(cfg, 2.0, 6.0, p_none=0.5, allow_finer=False)
    a, b, relation = adversarial_pair(cfg, tf)
    if cfg.random() < 0.4:
        a, b = b, a
    if tf and relation != "tf_suffix" and cfg.random() < 0.35:
        # both on the same non-default timeframe (they must share one candle manager); the later one
        # may give it in the enum form
        a["common"]["timeframe"] = tf
        b["common"]["timeframe"] = tf
        if cfg.random() < 0.6:
            (b if cfg.random() < 0.7 else a)["common"]["tf_as_enum"] = True
        if cfg.random() < 0.4:
            # a member-level fill flag: inside a Hexital the Hexital's own setting applies to the shared
            # manager, whichever member was registered first
            (a if cfg.random() < 0.5 else b)["common"]["timeframe_fill"] = True
        relation += "+shared_tf"
    members = [a, b]
    for extra in sample_members(cfg, cfg.choice((0, 0, 1, 2)), [None, tf] if tf else [None], max_period=8):
        if member_name(extra) not in {member_name(m) for m in members} and not any(
                helper_collision(extra, m) for m in members):
            members.append(extra)
    n = planlib.pick_n(cfg, (3, 15), (10, 50), (30, 150))
    if subbatch == "calm":
        faults, burst = {}, None
    else:
        faults, burst, _pe, _k = planlib.swarm_faults(cfg, base_s, tf_s, allowed=("drop", "dup", "burst", "halt"), halt_buckets=(3, 12))
    op_rng = sub_rng(seed, "operator")
    n_ops = op_rng.choice((0, op_rng.randint(1, 3), op_rng.randint(2, 12)))
    extras = []
    for _ in range(n_ops):
        act = op_rng.choice(ACTIONS)
        # aimed at member 0 mostly, sometimes at another one
        target = 0 if op_rng.random() < 0.7 else op_rng.randint(0, len(members) - 1)
        extras.append((op_rng.random(), {"op": act, "target": target}))
    start = world.pick_start(cfg, base_s, tf_s)
    pre, ops, fired, rows = planlib.stream_and_schedule(seed, subbatch, n, base_s, start, faults, burst, 0.0, extras)
    hexcfg = {}
    if tf and cfg.random() < 0.25:
        # the Hexital itself on a timeframe; one member names that same timeframe explicitly, the others inherit it
        hexcfg = {"timeframe": tf}
        for m in members:
            m["common"].pop("timeframe", None)
            m["common"].pop("tf_as_enum", None)
            m["common"].pop("timeframe_fill", None)
        members[cfg.randint(0, len(members) - 1)]["common"]["timeframe"] = tf
        relation += "+level_tf"
    # Hexital-level options meeting the pair: the solo twins are Hexitals with the same options
    fx = sub_rng(seed, "features")
    if fx.random() < 0.15:
        hexcfg["candlestick_type"] = "HA"
        fired["hexital_heikin_ashi"] += 1
    if tf and fx.random() < 0.15:
        hexcfg["timeframe_fill"] = True
        fired["hexital_timeframe_fill"] += 1
    # (no lifespan here: a member purged or recalculated by an action restarts over the retained window only,
    # which legitimately differs from its never-purged solo twin)
    if sub_rng(seed, "member-life").random() < 0.1:
        # one member was built with a lifespan of its own; inside the Hexital the manager's configuration wins
        # (here: none), for this member and - above all - for the others
        members[sub_rng(seed, "member-life-k").randint(0, len(members) - 1)]["common"]["lifespan_s"] = \
            base_s * sub_rng(seed, "member-life-n").randint(2, 12)
    if sub_rng(seed, "add-later").random() < 0.15:
        hexcfg["add_later"] = True     # the Hexital (and each solo twin) is built empty, members arrive through add_indicator
    fired["relation_" + relation] += 1
    fired["operator_ops"] += n_ops
    return {"format": 1, "property": ID, "seed": seed, "subbatch": subbatch,
            "config": {"kind": "hexital", "members": members, "hexital": hexcfg, "relation": relation, "base_s": base_s},
            "ops": [{"op": "new", "preload": pre}] + ops + [{"op": "check"}], "fired": dict(fired)}


def _column(slot):
    return [freeze(c.indicators.get(slot.name)) for c in slot.ind.candles]


def execute(trace, ctx=None):
    def body(run):
        cfg = trace["config"]
        members = cfg["members"]
        names = [member_name(m) for m in members]
        if len(set(names)) != len(names):
            raise Discard("duplicate-top-level-names")
        k = len(members)
        orders = [list(range(k)), list(reversed(range(k)))]
        worlds = []   # per registration order: (machine, {member index -> slot})
        for order in orders:
            mc = Machine(run, dict(cfg, members=[members[j] for j in order]))
            worlds.append((mc, order))
        solos = [Machine(run, dict(cfg, members=[m])) for m in members]
        removed = set()
        stale = set()   # members purged and not recalculated yet: legitimately empty
        actions = 0
        n_appends = 0
        compared_reading = False

        def slot_of(world_i, member_j):
            mc, order = worlds[world_i]
            return mc.slots[order.index(member_j)]

        def check_against_solo(stage, skip=()):
            nonlocal compared_reading
            for j in range(k):
                if j in removed or j in skip or j in stale:
                    continue
                want = _column(solos[j].slots[0])
                for w in range(2):
                    got = _column(slot_of(w, j))
                    if got != want:
                        x = next((q for q in range(min(len(got), len(want))) if got[q] != want[q]),
                                 min(len(got), len(want)))
                        raise Violation("vs-solo-twin", f"{spec_label(members[j])}|{cfg['relation']}",
                                        stage + ":" + ("order-ab" if w == 0 else "order-ba"),
                                        {"observed": names[j], "index": x, "n": len(want),
                                         "got": got[x] if x < len(got) else None,
                                         "solo": want[x] if x < len(want) else None,
                                         "members": names})
                if any(v is not None for v in want):
                    compared_reading = True
                # the same through the Hexital's own accessors (latest reading and the one before it)
                sname = solos[j].slots[0].name
                solo_hx = solos[j].subject
                try:
                    want_acc = (freeze(solo_hx.reading(sname)), freeze(solo_hx.prev_reading(sname)), solo_hx.has_reading(sname))
                except Exception:  # noqa: BLE001
                    want_acc = None
                if want_acc is not None:
                    for w in range(2):
                        hx = worlds[w][0].subject
                        nm = slot_of(w, j).name
                        try:
                            got_acc = (freeze(hx.reading(nm)), freeze(hx.prev_reading(nm)), hx.has_reading(nm))
                        except Exception as exc:  # noqa: BLE001
                            got_acc = ("raised", type(exc).__name__)
                        if got_acc != want_acc:
                            raise Violation("hexital-accessors-vs-solo-twin", f"{spec_label(members[j])}|{cfg['relation']}",
                                            stage, {"observed": nm, "got": got_acc, "solo": want_acc, "members": names})

        phase = "shared"
        for i, op in enumerate(trace["ops"]):
            run.op_index = i
            kind = op["op"]
            try:
                if kind == "new":
                    rows = op.get("preload") or []
                    phase = "solo"
                    for s in solos:
                        s.new(rows)
                    phase = "shared"
                    for mc, _o in worlds:
                        mc.new(rows)
                elif worlds[0][0].subject is None:
                    continue
                elif kind == "append":
                    rows = op["candles"]
                    d = worlds[0][0].delivered
                    if rows and d and rows[0][0] < d[-1][0]:
                        continue
                    n_appends += 1 if rows else 0
                    if rows:
                        stale.clear()   # Hexital.append recalculates every registered member
                    phase = "solo"
                    for j, s in enumerate(solos):
                        if j not in removed:
                            s.append(rows)
                    phase = "shared"
                    for mc, _o in worlds:
                        mc.append(rows)
                elif kind in ("purge", "recalculate", "remove", "calculate"):
                    t = op.get("target", 0) % k
                    if kind != "calculate" and t in removed:
                        run.stats["guard_skip:target_removed"] += 1
                        continue
                    if kind == "remove" and len(removed) >= k - 1:
                        run.stats["guard_skip:last_member"] += 1
                        continue
                    phase = "solo"
                    if kind == "calculate":
                        for j, s in enumerate(solos):
                            if j not in removed:
                                s.calculate(None)
                    phase = "shared"
                    for w, (mc, order) in enumerate(worlds):
                        before = {j: _column(slot_of(w, j)) for j in range(k) if j != t and j not in removed}
                        if kind == "calculate":
                            before = {}   # not aimed at a member; may legitimately refill purged ones
                        tslot = slot_of(w, t)
                        if kind == "purge":
                            mc.purge(tslot)
                        elif kind == "recalculate":
                            mc.recalculate(tslot)
                        elif kind == "remove":
                            mc.remove(tslot)
                        else:
                            mc.calculate(None)
                        for j, col in before.items():
                            now = _column(slot_of(w, j))
                            if now != col:
                                x = next(q for q in range(len(col)) if now[q] != col[q])
                                raise Violation("changed-by-action-on-other", f"{spec_label(members[j])}|{cfg['relation']}",
                                                kind, {"observed": names[j], "aimed_at": names[t], "index": x,
                                                       "before": col[x], "after": now[x], "members": names})
                    if kind == "calculate":
                        stale.clear()
                    elif kind == "remove":
                        removed.add(t)
                    elif kind == "purge":
                        stale.add(t)
                    elif kind == "recalculate":
                        stale.discard(t)
                    actions += 1
                    # the member aimed at may legitimately be empty now (purge): it is skipped until the
                    # next calculate/append brings it back
                    check_against_solo(kind)
                    continue
                elif kind != "check":
                    continue
            except LibError as e:
                if phase == "solo":
                    raise Discard("solo-twin-raised:" + e.type)   # the member fails on its own: C09's subject
                raise Violation("raises-only-with-other-member-present", cfg["relation"], e.site,
                                {"error": repr(e.exc), "op": kind, "members": names})
            if kind in ("new", "append", "check"):
                if kind == "check":
                    stale.clear()
                    try:
                        for j, s in enumerate(solos):
                            if j not in removed:
                                s.calculate(None)
                    except LibError as e:
                        raise Discard("solo-twin-raised:" + e.type)
                    try:
                        for mc, _o in worlds:
                            mc.calculate(None)
                    except LibError as e:
                        raise Violation("raises-only-with-other-member-present", cfg["relation"], e.site,
                                        {"error": repr(e.exc), "op": kind, "members": names})
                # after an append every registered member has been recalculated by Hexital.append
                check_against_solo(kind)
            run.observe(kind, [len(_column(slot_of(0, j))) for j in range(k) if j not in removed])
            run.state(cfg["relation"], kind, len(removed))
        if worlds[0][0].subject is None:
            raise Discard("no-new-op")
        run.stats["reach:actions_aimed_at_other_member"] += actions
        run.nontrivial = compared_reading and (actions >= 1 or n_appends >= 2)
    return run_property(ID, body, trace)


def simplify(trace):
    cfg = trace["config"]
    if len(cfg["members"]) > 2:
        for k in range(2, len(cfg["members"])):
            yield dict(trace, config=dict(cfg, members=cfg["members"][:k] + cfg["members"][k + 1:]))
