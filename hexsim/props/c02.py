"""C02 -- readings of closed candles are final: no look-ahead, no repainting.

Subject: a real standalone indicator, or a real Hexital with 1-3 members on mixed timeframes.
Oracles: (1) a LEDGER per candle manager -- after every operation the closed part of the state
(every candle without a timeframe, all but the last with one) is snapshotted and must stay a prefix
of every later closed part; (2) at the end the ledger equals the closed prefix of the batch twin over
the whole stream; (3) for sampled t the batch twin over stream[:t] agrees with the batch twin over
the whole stream on its closed prefix ("or in a batch over a longer list").
"""
from __future__ import annotations

from hexital import Hexital

from .. import planlib, world
from ..catalogue import build, mk_candles, sample_members, sample_spec, spec_label
from ..core import Discard, LibError, Violation, filled_size, run_property
from ..relational import norm_key
from ..util import candle_full, diff_field, sub_rng, tf_seconds

ID = "C02"
LEVEL = "exploration"
SUBBATCHES = ("calm", "faulty")
REFERENCE_MODELS = ["ledger of closed candles (history check)", "batch twin over the whole stream",
                    "batch twin over a prefix of the stream"]
RULE = ("seeded world loop executed on one real indicator or a real multi-timeframe Hexital; after every operation "
        "the closed candles are compared with the ledger of earlier observations, at the end with batch twins over "
        "the whole stream and over sampled prefixes; non-trivial = the ledger held at least 3 closed candles with a "
        "non-None reading and was re-checked after at least two later operations; distinct = distinct digests of "
        "(trace, ledger)")


def plan(seed, subbatch):
    cfg = sub_rng(seed, "config")
    kind = "hexital" if cfg.random() < 0.35 else "indicator"
    chained = False
    base_s, tf, tf_s = planlib.base_and_tf(cfg, 1.0, 12.0, p_none=0.4, allow_finer=False)
    fill = bool(tf) and cfg.random() < 0.4
    if kind == "indicator":
        spec = sample_spec(cfg)
        if tf:
            spec["common"]["timeframe"] = tf
            if fill:
                spec["common"]["timeframe_fill"] = True
        members = [spec]
        hexcfg = None
    else:
        tfs = [None, None]
        if tf:
            tfs += [tf, tf]
            tf2 = world.pick_timeframe(cfg, base_s, 2.0, 30.0, allow_finer=False)
            tfs.append(tf2)
        members = sample_members(cfg, cfg.randint(1, 3), tfs)
        if cfg.random() < 0.15:
            # a chained pair on the default candles, registered in either order (a consumer listed before
            # its source simply never gets an input on the newest candle: whatever it shows must be final)
            src = {"cls": "RSI", "params": {"period": cfg.randint(2, 5)}, "common": {}}
            sname = f"RSI_{src['params']['period']}"
            cons = cfg.choice((
                {"cls": "StandardDeviation", "params": {"period": cfg.randint(2, 5), "input_value": sname}, "common": {}},
                {"cls": "TSI", "params": {"period": cfg.randint(2, 5), "input_value": sname}, "common": {}},
                {"cls": "Counter", "params": {"input_value": sname, "count_value": 100.0}, "common": {}},
            ))
            members = [cons, src] if cfg.random() < 0.5 else [src, cons]
            chained = True
        hexcfg = {"timeframe_fill": fill}
    if sub_rng(seed, "ctype").random() < 0.15:
        # a candlestick type is a configuration like any other: closed converted candles are final too
        if kind == "indicator":
            members[0]["common"]["candlestick_type"] = "HA"
        else:
            hexcfg["candlestick_type"] = "HA"
    n = planlib.pick_n(cfg, (2, 12), (5, 50), (20, 160))
    long_history = kind == "indicator" and cfg.random() < (0.04 if planlib.thorough() else 0.012)
    if long_history:
        n = cfg.randint(1000, 1500)
        members[0]["common"].pop("timeframe", None)
        members[0]["common"].pop("timeframe_fill", None)
        tf, tf_s = None, None
    if subbatch == "calm":
        faults, burst, p_empty = {}, None, 0.0
    else:
        faults, burst, p_empty, _ = planlib.swarm_faults(cfg, base_s, tf_s, halt_buckets=(5, 30))
    start = world.pick_start(cfg, base_s, tf_s)
    env = planlib.dst_env(sub_rng(seed, "env"), n, base_s)
    if env:
        start = env[1]     # the stream straddles an offset change of the zone the process runs in
    extras = []
    op_rng = sub_rng(seed, "operator")
    if subbatch == "faulty" and not chained and op_rng.random() < 0.2:
        # the same object re-derives its readings mid-history: what it shows for closed candles stays final
        # (not with a chained pair: a consumer recalculated before its source legitimately has no input)
        for _ in range(op_rng.randint(1, 2)):
            extras.append((op_rng.random(), {"op": "recalculate"}))
    pre, ops, fired, rows = planlib.stream_and_schedule(
        seed, subbatch, n, base_s, start, faults, burst, p_empty, extras,
        max_span_s=(600 * tf_s if tf else None))
    fired["operator_recalculate"] += len(extras)
    out = [{"op": "new", "preload": pre, "calculate": True}] + ops + [{"op": "check"}]
    return {"format": 1, "property": ID, "seed": seed, "subbatch": subbatch,
            "config": {"sim_now": planlib.pick_sim_now(sub_rng(seed, "sim-now"), rows), "process_tz": env[0] if env else None, "kind": kind, "members": members, "hexital": hexcfg, "base_s": base_s,
                       "utc_offset_min": cfg.choice((None, None, None, 60, 330, -210))},
            "ops": out, "fired": dict(fired)}


def _build(cfg, rows):
    if cfg["kind"] == "indicator":
        ind = build(cfg["members"][0], rows)
        return ind, (lambda: {"self": (ind.candles, ind.timeframe)})
    members = [build(m) for m in cfg["members"]]
    hx = Hexital("sim", mk_candles(rows), members, **(cfg["hexital"] or {}))

    def view():
        return {name: (mgr.candles, mgr.timeframe) for name, mgr in hx._candles.items()}

    return hx, view


def _closed(candles, timeframe):
    return candles if not timeframe else candles[:-1]


def _label(cfg):
    return "+".join(spec_label(m) for m in cfg["members"]) if cfg["kind"] == "hexital" else spec_label(cfg["members"][0])


def _has_reading(full):
    def some(x):
        if isinstance(x, tuple):
            return any(some(v) for _k, v in x) if x and isinstance(x[0], tuple) else False
        return x is not None
    return any(some(v) for _k, v in full[6])


def execute(trace, ctx=None):
    from .. import catalogue

    catalogue.TZ_OFFSET_MIN = trace["config"].get("utc_offset_min")
    try:
        return _execute(trace)
    finally:
        catalogue.TZ_OFFSET_MIN = None


def _execute(trace):
    def body(run):
        cfg = trace["config"]
        label = _label(cfg)
        tfs = [m["common"].get("timeframe") for m in cfg["members"]]
        delivered = []
        subject = view = None
        ledger = {}   # manager name -> list of candle_full
        rechecks = 0
        n_ops = len(trace["ops"])

        def twin_raises(rows):
            try:
                t, _v = _build(cfg, rows)
                t.calculate()
            except Exception as exc:  # noqa: BLE001
                return type(exc).__name__
            return None

        def field_of(a, b):
            return norm_key(diff_field(a, b), None)

        for i, op in enumerate(trace["ops"]):
            run.op_index = i
            kind = op["op"]
            try:
                if kind == "new":
                    rows = op.get("preload") or []
                    delivered.extend(rows)
                    subject, view = run.call(filled_size(rows, tfs) * 2, _build, cfg, rows)
                    run.call(filled_size(rows, tfs) * 4, subject.calculate)
                elif subject is None:
                    continue
                elif kind == "append":
                    rows = op["candles"]
                    if rows and delivered and rows[0][0] < delivered[-1][0]:
                        continue
                    delivered.extend(rows)
                    run.call(filled_size(delivered, tfs) * 4, subject.append, mk_candles(rows))
                elif kind == "recalculate":
                    run.call(filled_size(delivered, tfs) * 6, subject.recalculate)
                elif kind != "check":
                    continue
            except LibError as e:
                t = twin_raises(delivered)
                if t == e.type:
                    raise Discard("exception-on-both-sides:" + e.type)
                raise Violation("only-live-raises", label, e.site, {"error": repr(e.exc), "batch": t})
            # ---- oracle 1: the ledger stays a prefix of the closed part
            full_pass = len(delivered) <= 60 or i % 10 == 0 or i == n_ops - 1
            for name, (candles, tfm) in view().items():
                closed = _closed(candles, tfm)
                led = ledger.setdefault(name, [])
                if len(closed) < len(led):
                    raise Violation("live-ledger", label, "closed-candle-disappeared",
                                    {"manager": name, "ledger": len(led), "closed": len(closed)})
                lo = 0 if full_pass else max(0, len(led) - 16)
                for j in range(lo, len(led)):
                    now = candle_full(closed[j])
                    if now != led[j]:
                        raise Violation("live-ledger", label, field_of(now, led[j]),
                                        {"manager": name, "index": j, "then": led[j], "now": now,
                                         "closed_now": len(closed)})
                if led:
                    rechecks += 1
                for j in range(len(led), len(closed)):
                    led.append(candle_full(closed[j]))
            run.observe(kind, {k: len(v) for k, v in ledger.items()})
            if kind == "check":
                # ---- oracle 2: ledger == closed prefix of the batch twin over the whole stream
                try:
                    twin, tview = _build(cfg, delivered)
                    twin.calculate()
                except Exception as exc:  # noqa: BLE001
                    raise Violation("only-batch-raises", label, type(exc).__name__, {"error": repr(exc)})
                whole = {name: [candle_full(c) for c in cs] for name, (cs, _t) in tview().items()}
                for name, led in ledger.items():
                    w = whole.get(name, [])
                    for j in range(len(led)):
                        if j >= len(w) or led[j] != w[j]:
                            raise Violation("ledger-vs-batch", label,
                                            field_of(led[j], w[j]) if j < len(w) else "count",
                                            {"manager": name, "index": j, "live": led[j],
                                             "batch": w[j] if j < len(w) else None})
                # ---- oracle 3: batch over a prefix agrees with batch over the longer list
                n = len(delivered)
                cuts = sorted({c for c in (1, 2, 3, n // 4, n // 2, (3 * n) // 4, n - 1) if 0 < c < n})
                for cut in cuts:
                    try:
                        pt, pview = _build(cfg, delivered[:cut])
                        pt.calculate()
                    except Exception:  # noqa: BLE001
                        run.stats["prefix_twin_raised"] += 1
                        continue
                    for name, (cs, tfm) in pview().items():
                        closed = _closed(cs, tfm)
                        w = whole.get(name, [])
                        for j, c in enumerate(closed):
                            f = candle_full(c)
                            if j >= len(w) or f != w[j]:
                                raise Violation("batch-prefix-vs-batch", label,
                                                field_of(f, w[j]) if j < len(w) else "count",
                                                {"manager": name, "cut": cut, "index": j, "prefix": f,
                                                 "whole": w[j] if j < len(w) else None})
                    run.stats["prefix_twins"] += 1
        if subject is None:
            raise Discard("no-new-op")
        with_reading = sum(1 for led in ledger.values() for f in led if _has_reading(f))
        run.stats["reach:closed_candles_in_ledger"] += sum(len(v) for v in ledger.values())
        run.state(cfg["kind"], len(ledger), min(with_reading, 3))
        run.nontrivial = with_reading >= 3 and rechecks >= 2
    return run_property(ID, body, trace)


def simplify(trace):
    cfg = trace["config"]
    if cfg["kind"] == "hexital" and len(cfg["members"]) > 1:
        for k in range(len(cfg["members"])):
            ms = cfg["members"][:k] + cfg["members"][k + 1:]
            yield dict(trace, config=dict(cfg, members=ms))
    for k, m in enumerate(cfg["members"]):
        common = m.get("common") or {}
        for key in ("timeframe_fill", "round_value", "timeframe"):
            if key in common:
                c2 = {a: b for a, b in common.items() if a != key}
                if key == "timeframe":
                    c2.pop("timeframe_fill", None)
                ms = list(cfg["members"])
                ms[k] = dict(m, common=c2)
                yield dict(trace, config=dict(cfg, members=ms))
