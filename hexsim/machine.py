"""A driver of real Indicator / Hexital objects through operator programs (C13, C14, C19, C20).

The Machine owns the real subject, applies guarded ops from a trace and exposes the state the
oracles need.  It contains no oracle itself and re-implements nothing of the library.
"""
from __future__ import annotations

from datetime import timedelta

from hexital import Hexital

from .catalogue import as_dict, build, common_kwargs, encode, mk_candles
from .util import snap_candles


class Slot:
    def __init__(self, spec, ind):
        self.spec = spec
        self.ind = ind
        self.registered = True

    @property
    def name(self):
        return self.ind.name


class Machine:
    def __init__(self, run, cfg):
        self.run = run
        self.cfg = cfg
        self.kind = cfg["kind"]           # "indicator" | "hexital"
        self.subject = None
        self.slots = []
        self.delivered = []
        self._shared_args = {}
        self.pre_hook = None      # called on every freshly built Indicator object BEFORE it is registered / calculated

    # ------------------------------------------------------------------ construction
    def hexital_kwargs(self):
        h = dict(self.cfg.get("hexital") or {})
        kw = {}
        if h.get("timeframe"):
            kw["timeframe"] = h["timeframe"]
            if h.get("tf_form") == "lower":
                kw["timeframe"] = h["timeframe"].lower()
            elif h.get("tf_form") == "enum":
                from hexital.utils.timeframe import TimeFrame

                try:
                    kw["timeframe"] = TimeFrame(h["timeframe"])
                except ValueError:
                    pass
        if h.get("timeframe_fill"):
            kw["timeframe_fill"] = True
        if h.get("lifespan_s") is not None:
            kw["candles_lifespan"] = timedelta(seconds=h["lifespan_s"])
        if h.get("candlestick_type"):
            kw["candlestick_type"] = h["candlestick_type"]
            if h.get("ctype_form") == "object":
                from hexital.utils.candlesticks import validate_candlesticktype

                kw["candlestick_type"] = validate_candlesticktype(h["candlestick_type"])
        return kw

    def make(self, rows, members=None, forms=None):
        """Build a fresh subject of the configured kind over `rows` (used for subject and twins).
        Returns (subject, slots)."""
        members = self.cfg["members"] if members is None else members
        if self.kind == "indicator":
            ind = build(members[0], rows)
            if self.pre_hook:
                self.pre_hook(ind)
            return ind, [Slot(members[0], ind)]
        inds, given = [], []
        for k, m in enumerate(members):
            form = (forms or {}).get(k, "object")
            if m.get("shared_args"):
                # a configuration dict whose "args" value is ONE dict object shared with another member of this
                # Hexital (the caller wrote the common arguments once), plus loose analysis keywords of its own
                sa = m["shared_args"]
                shared = self._shared_args.setdefault(sa["key"], dict(sa["args"]))
                given.append({"analysis": m["analysis"], "args": shared, **sa["loose"], **common_kwargs(m.get("common"))})
                inds.append(None)
                continue
            if form == "dict":
                given.append(as_dict(m))
                inds.append(None)
            else:
                obj = build(m)
                if self.pre_hook:
                    self.pre_hook(obj)
                given.append(obj)
                inds.append(obj)
        if (self.cfg.get("hexital") or {}).get("add_later"):
            # built WITHOUT indicators; every member is registered afterwards through add_indicator
            hx = Hexital("sim", mk_candles(rows), None, **self.hexital_kwargs())
            for g in given:
                hx.add_indicator(g)
        else:
            hx = Hexital("sim", mk_candles(rows), given, **self.hexital_kwargs())
        self._shared_args = {}      # the next Hexital built by this machine (a twin) gets dict objects of its own
        objs = list(hx.indicators.values())
        if len(objs) != len(members):
            # a freshly built Hexital must list exactly the members it was given (distinct names by construction)
            from .core import Violation

            raise Violation("registered-members", "hexital", "count",
                            {"given": len(members), "registered": [o.name for o in objs]})
        slots = [Slot(m, objs[k]) for k, m in enumerate(members)]
        return hx, slots

    def new(self, rows, calculate=True):
        self.delivered = list(rows)
        self.subject, self.slots = self.run.call(len(rows) * 4, self.make, rows)
        if calculate:
            self.run.call(len(rows) * 6, self.subject.calculate)

    # ------------------------------------------------------------------ state
    def live_slots(self):
        return [s for s in self.slots if s.registered]

    def managers(self):
        """name -> candle list, for every candle manager of the subject."""
        if self.kind == "indicator":
            return {"self": self.subject.candles}
        return {name: m.candles for name, m in self.subject._candles.items()}

    def snapshot(self):
        return {name: snap_candles(c) for name, c in self.managers().items()}

    def n_candles(self):
        return len(self.delivered)

    def slot(self, k):
        if k is None:
            return None
        live = self.live_slots()
        if not live:
            return None
        return live[k % len(live)]

    # ------------------------------------------------------------------ ops
    def append(self, rows, enc="candles"):
        self.delivered.extend(rows)
        payload = encode(rows, enc) if rows else []
        self.run.call(len(self.delivered) * 6, self.subject.append, payload)
        return payload

    def _name_arg(self, slot):
        return slot.name if slot is not None else None

    def calculate(self, slot=None):
        n = self.n_candles() * 6
        if self.kind == "indicator":
            return self.run.call(n, self.subject.calculate)
        if slot is not None and (self.cfg.get("hexital") or {}).get("via_member"):
            return self.run.call(n, slot.ind.calculate)       # the same call made on the member object itself
        return self.run.call(n, self.subject.calculate, self._name_arg(slot))

    def purge(self, slot=None):
        n = self.n_candles() * 6
        if self.kind == "indicator":
            return self.run.call(n, self.subject.purge)
        if slot is not None and (self.cfg.get("hexital") or {}).get("via_member"):
            return self.run.call(n, slot.ind.purge)       # the same call made on the member object itself
        return self.run.call(n, self.subject.purge, self._name_arg(slot))

    def recalculate(self, slot=None):
        n = self.n_candles() * 6
        if self.kind == "indicator":
            return self.run.call(n, self.subject.recalculate)
        if slot is not None and (self.cfg.get("hexital") or {}).get("via_member"):
            return self.run.call(n, slot.ind.recalculate)       # the same call made on the member object itself
        return self.run.call(n, self.subject.recalculate, self._name_arg(slot))

    def calculate_index(self, slot, index):
        n = self.n_candles() * 6
        if self.kind == "indicator":
            return self.run.call(n, self.subject.calculate_index, index)
        return self.run.call(n, self.subject.calculate_index, self._name_arg(slot), index)

    def add(self, spec, form="object"):
        obj = as_dict(spec) if form == "dict" else build(spec)
        self.run.call(self.n_candles() * 4, self.subject.add_indicator, obj)
        ind = obj if form != "dict" else list(self.subject.indicators.values())[-1]
        # re-adding an identical configuration replaces the registered object under the same name
        for s in self.slots:
            if s.registered and s.name == ind.name:
                s.registered = False
        slot = Slot(spec, self.subject.indicators[ind.name])
        self.slots.append(slot)
        return slot

    def readd_same(self, slot):
        """remove_indicator followed by add_indicator of the very SAME Indicator object."""
        self.run.call(self.n_candles() * 4, self.subject.remove_indicator, slot.name)
        self.run.call(self.n_candles() * 4, self.subject.add_indicator, slot.ind)

    def remove(self, slot):
        self.run.call(self.n_candles() * 4, self.subject.remove_indicator, slot.name)
        slot.registered = False
