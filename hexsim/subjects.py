"""Builders of real library subjects reached through the four routes to a CandleManager."""
from __future__ import annotations

from datetime import timedelta

from hexital import Hexital
from hexital.core.candle_manager import CandleManager

from .catalogue import build, mk_candles

ROUTES = ("manager", "indicator", "hexital_member", "hexital_level")
TF_AS_ENUM = False     # set by an executor: the bare-manager route passes the timeframe as a TimeFrame member
EMA3 = {"cls": "EMA", "params": {"period": 3}, "common": {}}


def _with_common(spec, **extra):
    common = dict(spec.get("common") or {})
    for k, v in extra.items():
        if v is not None and v is not False:
            common[k] = v
    return dict(spec, common=common)


EMA2 = {"cls": "EMA", "params": {"period": 2}, "common": {}}


def _family(member, siblings):
    """The member under test plus sibling members on OTHER timeframe spellings / spans (each sibling is
    (timeframe, listed_first)); siblings own their own candle managers and must not matter."""
    first = [build(_with_common(EMA2, timeframe=s)) for s, before in (siblings or []) if before]
    last = [build(_with_common(EMA2, timeframe=s)) for s, before in (siblings or []) if not before]
    return first + [member] + last


def build_route(route, tf, rows, fill=False, lifespan_s=None, ctype=None, spec=None, kw_level=None, siblings=None):
    """Returns (subject with .append, manager, view() -> candle list of the manager under test).
    For the indicator / hexital routes `subject.member` is the real Indicator object."""
    spec = spec or EMA3
    candles = mk_candles(rows)
    life = timedelta(seconds=lifespan_s) if lifespan_s is not None else None
    if route == "manager":
        ct = None
        if ctype:
            from hexital.utils.candlesticks import validate_candlesticktype

            ct = validate_candlesticktype(ctype)
        tf_arg = tf
        if TF_AS_ENUM and tf:
            from hexital.utils.timeframe import TimeFrame

            try:
                tf_arg = TimeFrame(tf.upper())     # the documented alternative: an enum member
            except ValueError:
                pass
        m = CandleManager(candles, candles_lifespan=life, timeframe=tf_arg, timeframe_fill=fill,
                          candlestick_type=ct)
        return m, m, (lambda: m.candles)
    if route == "indicator":
        ind = build(_with_common(spec, timeframe=tf, timeframe_fill=fill, lifespan_s=lifespan_s,
                                 candlestick_type=ctype), rows)
        return ind, ind.candle_manager, (lambda: ind.candles)
    if route == "hexital_member":
        member = build(_with_common(spec, timeframe=tf))
        hx = Hexital("sim", candles, _family(member, siblings), timeframe_fill=fill, candles_lifespan=life,
                     candlestick_type=ctype)
        hx.member = member
        key = tf.upper() if tf else "default"
        return hx, hx._candles[key], (lambda: hx.candles(tf) if tf else hx.candles())
    if route == "hexital_level":
        member = build(spec)
        hx = Hexital("sim", candles, _family(member, siblings), timeframe=tf, timeframe_fill=fill,
                     candles_lifespan=life, candlestick_type=ctype)
        hx.member = member
        return hx, hx._candles["default"], (lambda: hx.candles())
    if route == "hexital_two_level":
        # the Hexital itself collapses to a finer level timeframe, the member to a multiple of it:
        # the member's candles must still be the plain resampling of the raw stream
        level = kw_level
        member = build(_with_common(spec, timeframe=tf))
        hx = Hexital("sim", candles, _family(member, siblings), timeframe=level, timeframe_fill=fill,
                     candles_lifespan=life, candlestick_type=ctype)
        hx.member = member
        return hx, hx._candles[tf.upper()], (lambda: hx.candles(tf))
    raise ValueError(route)


def member_of(route, subject):
    if route == "indicator":
        return subject
    if getattr(subject, "member", None) is not None:
        return subject.member
    if route in ("hexital_member", "hexital_level"):
        return next(iter(subject.indicators.values()))
    return None


class Neighbours:
    """Other library objects alive in the same process and fed the same instants before the subject is:
    plain CandleManagers on other timeframes and / or under another UTC offset.  Anything process-global in
    the library (module-level caches, class attributes used as state) would let them reach the subject.
    Their own failures are ignored - they are not the subject."""

    def __init__(self, specs, rows):
        self.items = []
        for nb in specs or []:
            try:
                self.items.append((nb, CandleManager(self._candles(nb, rows), timeframe=nb.get("tf"),
                                                     timeframe_fill=bool(nb.get("fill")))))
            except Exception:  # noqa: BLE001
                pass

    @staticmethod
    def _candles(nb, rows):
        from datetime import timezone

        from hexital import Candle

        from .util import ts

        off = nb.get("utc_offset_min")
        tz = timezone(timedelta(minutes=off)) if off is not None else None
        shift = nb.get("shift_s", 0)
        return [Candle(r[1], r[2], r[3], r[4], r[5], timestamp=ts(r[0] + shift).replace(tzinfo=tz)) for r in rows]

    def feed(self, rows):
        for nb, m in self.items:
            try:
                m.append(self._candles(nb, rows))
            except Exception:  # noqa: BLE001
                pass


def sample_neighbours(rng, tf, utc_offset_min, p=0.15):
    """Neighbour specs for a subject on timeframe `tf` whose stream carries `utc_offset_min` (None = naive)."""
    from . import world

    if rng.random() >= p:
        return []
    out = []
    for _ in range(rng.randint(1, 2)):
        kind = rng.choice(("other_offset", "other_tf", "other_tf"))
        if kind == "other_offset" and utc_offset_min is not None and tf:
            # the SAME instants seen from another zone (equal as aware datetimes, different wall clock)
            other = rng.choice([o for o in (0, 60, 120, 330, -210, 345) if o != utc_offset_min])
            out.append({"tf": tf, "utc_offset_min": other, "shift_s": (other - utc_offset_min) * 60})
        elif tf:
            cands = [world.equiv_spelling(tf), world.day_shifted(tf), "D1", "D2", "D7", "H1", "T5"]
            t2 = rng.choice([c for c in cands if c.upper() != tf.upper()])
            out.append({"tf": t2, "utc_offset_min": utc_offset_min})
    return out
