"""Command line of the hexsim machinery.  Run through /verif/check (which pins the environment)."""
from __future__ import annotations

import json
import os
import sys

HERE = os.path.dirname(os.path.abspath(__file__))
VERIF = os.path.dirname(HERE)
if VERIF not in sys.path:
    sys.path.insert(0, VERIF)


def _assert_env():
    repo = os.environ.get("HEXSIM_REPO", "/repo")
    import hexital

    real = os.path.realpath(os.path.dirname(hexital.__file__))
    want = os.path.realpath(os.path.join(repo, "hexital"))
    if real != want:
        print(f"HARNESS-ERROR hexital imported from {real}, expected {want}")
        sys.exit(2)
    if not hasattr(sys, "monitoring"):
        print("HARNESS-ERROR sys.monitoring not available")
        sys.exit(2)
    if os.environ.get("PYTHONHASHSEED") is None or os.environ.get("TZ") != os.environ.get("HEXSIM_IMPORT_TZ", "UTC"):
        print("HARNESS-ERROR run through /verif/check (environment not pinned)")
        sys.exit(2)
    if os.environ.get("HEXSIM_IMPORT_TZ"):
        # a leg whose interpreter STARTED (and imported the library) under another zone: anything the library
        # evaluates at import time has seen that zone; from here on the process runs under UTC like every other
        import importlib
        import pkgutil
        import time

        for mod in pkgutil.walk_packages(hexital.__path__, "hexital."):
            importlib.import_module(mod.name)
        os.environ["TZ"] = "UTC"
        time.tzset()


def main(argv):
    if not argv:
        print(__doc__)
        return 2
    cmd = argv[0]
    _assert_env()
    from hexsim import runner

    if cmd == "setup":
        import hexital  # noqa: F401

        for pid in runner.CLAIMED:
            try:
                runner.load_prop(pid)
            except ModuleNotFoundError:
                pass
        print("setup ok: hexital from", os.environ.get("HEXSIM_REPO", "/repo"), "python", sys.version.split()[0])
        return 0

    if cmd == "replay":
        path = argv[1]
        with open(path) as fh:
            want_hash = json.load(fh).get("hashseed")
        with open(path) as fh:
            want_tz = json.load(fh).get("import_tz")
        differs = ((want_hash is not None and str(want_hash) != os.environ.get("PYTHONHASHSEED"))
                   or (want_tz or None) != (os.environ.get("HEXSIM_IMPORT_TZ") or None))
        if differs and not os.environ.get("HEXSIM_REPLAY_REEXEC"):
            # the file was found under another string-hash seed: replay it in an interpreter started with it
            import subprocess

            env = dict(os.environ, HEXSIM_HASHSEED=str(want_hash if want_hash is not None else 0), HEXSIM_REPLAY_REEXEC="1")
            env.pop("PYTHONHASHSEED", None)
            env.pop("HEXSIM_IMPORT_TZ", None)
            if want_tz:
                env["HEXSIM_IMPORT_TZ"] = want_tz
            return subprocess.run([os.path.join(VERIF, "check"), "replay", path], env=env).returncode
        v, recorded = runner.replay_file(path)
        print(json.dumps({"status": v.status, "signature": v.signature, "op_index": v.op_index,
                          "recorded_signature": recorded.get("signature"),
                          "recorded_op_index": recorded.get("op_index")}))
        if v.status == "violation":
            with open(path) as fh:
                pid = json.load(fh)["property"]
            same = (recorded.get("signature") in (None, v.signature)
                    and recorded.get("op_index") in (None, -1, v.op_index))
            print(("REPRODUCED " if same else "DIFFERENT ") + v.signature)
            print(f"VIOLATION property={pid} replay={path}")
            return 1
        print("NOT-REPRODUCED status=" + v.status)
        return 0

    if cmd == "trace":
        # debugging aid: ./check trace C03 <index> [--exec]
        pid, index = argv[1].upper(), int(argv[2])
        prop = runner.load_prop(pid)
        base = int(os.environ.get("VERIF_SEED", "0"))
        tr = runner.plan_run(base, prop, index)
        if "--exec" in argv:
            v = prop.execute(tr)
            print(json.dumps(runner.jsonable(v.brief()), indent=1))
            print("stats", dict(v.stats))
        else:
            print(json.dumps(tr, indent=1))
        return 0

    if cmd == "survey":
        # ./check survey <ID> [n]: signature histogram over the first n runs (no shrinking, no stop)
        from collections import Counter
        from concurrent.futures import ProcessPoolExecutor
        from multiprocessing import get_context

        pid = argv[1].upper()
        n = int(argv[2]) if len(argv) > 2 else 2000
        base = int(os.environ.get("VERIF_SEED", "0"))
        jobs = int(os.environ.get("VERIF_JOBS", "16"))
        step = 25
        hist, first = Counter(), {}
        with ProcessPoolExecutor(max_workers=jobs, mp_context=get_context("fork"),
                                 initializer=runner._worker_init) as pool:
            futs = [pool.submit(runner._work_isolated, pid, base, a, min(a + step, n), 0) for a in range(0, n, step)]
            for f in futs:
                for rec in f.result():
                    key = rec.get("sig") if rec.get("status") == "violation" else rec.get("status")
                    if rec.get("status") == "harness":
                        key = "harness:" + rec.get("error", "")[-300:]
                    hist[key] += 1
                    first.setdefault(key, rec["i"])
        for k, v in hist.most_common():
            print(f"{v:6d}  first@{first[k]:<6d} {k}")
        return 0

    if cmd == "find":
        # ./check find <ID> <signature substring> [max index]: first run whose violation signature
        # contains the substring; shrinks it and writes a replay file (used to produce reproducers)
        from hexsim import shrink as shrinker

        pid, needle = argv[1].upper(), argv[2]
        limit = int(argv[3]) if len(argv) > 3 else 5000
        prop = runner.load_prop(pid)
        base = int(os.environ.get("VERIF_SEED", "0"))
        seen = {}
        for index in range(limit):
            tr = runner.plan_run(base, prop, index)
            v = prop.execute(tr)
            if v.status == "violation":
                seen[v.signature] = seen.get(v.signature, 0) + 1
                if needle in v.signature:
                    small, v2 = shrinker.shrink(prop, tr, v.signature, time_limit=60)
                    path = runner.write_replay(pid, small, v2)
                    print("found at index", index, v2.signature, "replay", path)
                    return 1
        print("not found; signatures seen:", json.dumps(seen, indent=1))
        return 0

    if cmd == "selftest-determinism":
        from hexsim import selftest

        return selftest.determinism(argv[1:])

    if cmd == "selftest-digests":
        from hexsim import selftest

        return selftest.print_digests(argv[1:])

    if cmd == "selftest-sensitivity":
        from hexsim import selftest

        return selftest.sensitivity(argv[1:])

    pid = cmd.upper()
    if pid not in runner.CLAIMED:
        print(f"unknown command or property {cmd}")
        return 2
    tier = argv[1] if len(argv) > 1 else os.environ.get("VERIF_TIER", "quick")
    if tier not in ("quick", "thorough"):
        print("tier must be quick or thorough")
        return 2
    os.environ["VERIF_TIER"] = tier   # inherited by the forked workers (C07 plans a longer ladder when thorough)
    base = int(os.environ.get("VERIF_SEED", "0"))
    jobs = int(os.environ.get("VERIF_JOBS", "16"))
    prop = runner.load_prop(pid)
    default_budget = getattr(prop, "BUDGET", {"quick": 25, "thorough": 420})[tier]
    budget = float(os.environ.get("VERIF_BUDGET_S", default_budget))
    max_runs = os.environ.get("VERIF_MAX_RUNS")
    return runner.run_check(pid, tier, base, budget, jobs, int(max_runs) if max_runs else None)


if __name__ == "__main__":
    try:
        rc = main(sys.argv[1:])
    except SystemExit:
        raise
    except BaseException:  # noqa: BLE001
        import traceback

        traceback.print_exc()
        print("HARNESS-ERROR unhandled exception in the harness")
        rc = 2
    sys.stdout.flush()
    sys.exit(rc)
