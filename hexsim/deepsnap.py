"""Deep, canonical snapshot of the object graph of a real Indicator / Hexital / CandleManager:
public and private instance attributes, every candle, both reading dictionaries, helper
indicators.  Pure observation (vars()/getattr only); shared objects are snapshotted once and
referenced afterwards, so cycles are harmless."""
from __future__ import annotations

from datetime import datetime, timedelta

from hexital.core.candle import Candle
from hexital.core.candle_manager import CandleManager
from hexital.core.candlestick_type import CandlestickType
from hexital.core.hexital import Hexital
from hexital.core.indicator import Indicator

from .util import freeze, secs


def deep_snapshot(obj):
    return _snap(obj, {})


def _candle(c):
    t = c.timestamp
    return ("Candle", secs(t) if isinstance(t, datetime) else t, t.microsecond if isinstance(t, datetime) else None,
            c.open, c.high, c.low, c.close, c.volume, freeze(c.indicators), freeze(c.sub_indicators),
            freeze(c.clean_values), c.tag)


def _snap(v, memo):
    if v is None or isinstance(v, (bool, int, float, str)):
        return v
    if isinstance(v, (datetime, timedelta)):
        return freeze(v)
    if isinstance(v, Candle):
        return _candle(v)
    vid = id(v)
    if isinstance(v, (Indicator, CandleManager, Hexital)):
        if vid in memo:
            return ("ref", memo[vid])
        memo[vid] = f"{type(v).__name__}#{len(memo)}"
        items = tuple((k, _snap(x, memo)) for k, x in sorted(vars(v).items()))
        return (type(v).__name__, memo[vid], items)
    if isinstance(v, list):
        if v and isinstance(v[0], Candle):
            if vid in memo:
                return ("ref", memo[vid])
            memo[vid] = f"candles#{len(memo)}"
            return ("candles", memo[vid], tuple(_candle(c) for c in v))
        return ("list", tuple(_snap(x, memo) for x in v))
    if isinstance(v, tuple):
        return ("tuple", tuple(_snap(x, memo) for x in v))
    if isinstance(v, dict):
        return ("dict", tuple((str(k), _snap(x, memo)) for k, x in sorted(v.items(), key=lambda kv: str(kv[0]))))
    if isinstance(v, (set, frozenset)):
        return ("set", tuple(sorted(str(x) for x in v)))
    if isinstance(v, CandlestickType):
        return ("CandlestickType", type(v).__name__)
    if callable(v):
        return ("callable", getattr(v, "__name__", type(v).__name__))
    return ("obj", type(v).__name__)


def first_difference(a, b, path="root"):
    """Human-readable path of the first difference between two snapshots."""
    if a == b:
        return None
    if isinstance(a, tuple) and isinstance(b, tuple):
        if len(a) != len(b):
            # attribute sets differ?
            ka = [x[0] for x in a if isinstance(x, tuple) and len(x) == 2 and isinstance(x[0], str)]
            kb = [x[0] for x in b if isinstance(x, tuple) and len(x) == 2 and isinstance(x[0], str)]
            if ka != kb:
                gone = [k for k in ka if k not in kb]
                new = [k for k in kb if k not in ka]
                return f"{path}: keys removed={gone} added={new}"
            return f"{path}: length {len(a)} -> {len(b)}"
        for i, (x, y) in enumerate(zip(a, b)):
            if x != y:
                label = x[0] if isinstance(x, tuple) and len(x) == 2 and isinstance(x[0], str) else str(i)
                return first_difference(x, y, f"{path}.{label}")
    return f"{path}: {str(a)[:80]} -> {str(b)[:80]}"
