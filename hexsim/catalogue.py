"""Catalogue of subjects: every shipped indicator class and every pattern / movement function,
with parameter samplers, builders (object / dict / settings form) and row <-> Candle conversion.

Only REAL library objects are built here; nothing of hexital is re-implemented.
"""
from __future__ import annotations

from datetime import datetime, timedelta

import hexital
from hexital import indicators as hx_ind
from hexital.analysis import MOVEMENT_MAP, PATTERN_MAP
from hexital.core.candle import Candle
from hexital.indicators import INDICATOR_MAP

from .util import ts

CLASSES = [
    "ADX", "AROON", "ATR", "BBANDS", "Counter", "Donchian", "EMA", "HighestLowest",
    "HighLowAverage", "HMA", "KC", "MACD", "OBV", "RMA", "ROC", "RSI", "SMA",
    "StandardDeviation", "StandardDeviationThreshold", "STOCH", "Supertrend", "TR", "TSI",
    "VWAP", "VWMA", "WMA",
]
NESTED = ["ADX", "ATR", "BBANDS", "HMA", "KC", "MACD", "RSI", "StandardDeviation",
          "StandardDeviationThreshold", "STOCH", "Supertrend", "TSI", "VWAP"]
DICT_VALUED = {
    "ADX": ["ADX", "DM_Plus", "DM_Neg"],
    "AROON": ["AROONU", "AROOND", "AROONOSC"],
    "BBANDS": ["BBL", "BBM", "BBU"],
    "Donchian": ["DCL", "DCM", "DCU"],
    "HighestLowest": ["low", "high"],
    "KC": ["lower", "band", "upper"],
    "MACD": ["MACD", "signal", "histogram"],
    "STOCH": ["stoch", "k", "d"],
    "Supertrend": ["trend", "direction", "long", "short"],
}
MOVEMENTS = sorted(MOVEMENT_MAP)


# Analysis callables a USER of the library would write for Amorph (not shipped functions): each looks
# at a bounded window ending at `index`, like the shipped ones.
def user_close_delta(candles, index, **_):
    if index < 1:
        return None
    return candles[index].close - candles[index - 1].close


def user_range_mean(candles, index, length=4, **_):
    if index + 1 < length:
        return None
    return sum(candles[i].high - candles[i].low for i in range(index - length + 1, index + 1)) / length


def user_body_dict(candles, index, **_):
    c = candles[index]
    return {"body": abs(c.close - c.open), "up": c.close >= c.open}


USER_ANALYSES = {"user:close_delta": user_close_delta, "user:range_mean": user_range_mean,
                 "user:body_dict": user_body_dict}
PATTERNS = sorted(PATTERN_MAP)
PRICE_FIELDS = ["open", "high", "low", "close"]


def cls_of(name):
    return getattr(hx_ind, name)


def map_key(cls_name):
    """Key of INDICATOR_MAP that maps to the class (the name a dict-form spec must use)."""
    c = cls_of(cls_name)
    for k, v in INDICATOR_MAP.items():
        if v is c:
            return k
    raise KeyError(cls_name)


# ----------------------------------------------------------------------------- samplers
def _period(rng, lo=2, hi=20):
    # weight small periods: they warm up inside short runs and hit start-up corner cases
    if rng.random() < 0.6:
        return rng.randint(lo, min(hi, lo + 4))
    return rng.randint(lo, hi)


def _input(rng, p_other=0.35):
    if rng.random() < p_other:
        return rng.choice(PRICE_FIELDS)
    return "close"


def sample_params(rng, cls_name, max_period=20):
    P = lambda lo=2, hi=max_period: _period(rng, lo, max(lo, hi))  # noqa: E731
    if cls_name == "ADX":
        p = {"period": P(2, min(10, max_period))}
        if rng.random() < 0.4:
            p["period_signal"] = rng.randint(2, 8)
        return p
    if cls_name in ("AROON", "ATR", "Donchian", "VWAP", "VWMA"):
        return {"period": P()}
    if cls_name == "HighestLowest":
        return {"period": P(2, max(30, max_period))}
    if cls_name in ("BBANDS", "RMA", "ROC", "RSI", "SMA", "StandardDeviation", "WMA"):
        return {"period": P(), "input_value": _input(rng)}
    if cls_name == "HMA":
        return {"period": P(2, max_period) if rng.random() < 0.2 else P(4, max(4, max_period)),
                "input_value": _input(rng)}
    if cls_name == "EMA":
        p = {"period": P(), "input_value": _input(rng)}
        if rng.random() < 0.2:
            p["smoothing"] = rng.choice((1.5, 2.0, 3.0))
        return p
    if cls_name == "Counter":
        return rng.choice((
            {"input_value": "positive", "count_value": True},
            {"input_value": "negative", "count_value": True},
            {"input_value": "volume", "count_value": 0},
            {"input_value": "positive", "count_value": False},
        ))
    if cls_name in ("HighLowAverage", "OBV", "TR"):
        return {}
    if cls_name == "KC":
        return {"period": P(), "multiplier": rng.choice((1.0, 1.5, 2.0, 3.0)),
                "input_value": _input(rng)}
    if cls_name == "MACD":
        fast = rng.randint(2, 8)
        slow = fast + rng.randint(1, 10)
        if rng.random() < 0.15:
            fast, slow = slow, fast   # legal: the library orders the two periods itself
        return {"fast_period": fast, "slow_period": slow,
                "signal_period": rng.randint(2, 6), "input_value": _input(rng)}
    if cls_name == "StandardDeviationThreshold":
        return {"period": P(), "multiplier": rng.choice((0.5, 1.0, 2.0)),
                "input_value": _input(rng)}
    if cls_name == "STOCH":
        return {"period": P(2, min(14, max_period)), "slow_period": rng.randint(2, 4),
                "smoothing_k": rng.randint(2, 4), "input_value": _input(rng, 0.15)}
    if cls_name == "Supertrend":
        return {"period": P(2, min(10, max_period)), "multiplier": rng.choice((1.0, 2.0, 3.0))}
    if cls_name == "TSI":
        p = {"period": P(2, min(25, max_period)), "input_value": _input(rng)}
        if rng.random() < 0.3:
            p["smooth_period"] = rng.randint(2, 10)
        return p
    raise KeyError(cls_name)


def sample_analysis(rng, fn_name, names=None):
    """Arguments for a pattern / movement function; `names` are reading names to choose from."""
    names = names or PRICE_FIELDS
    if fn_name in PATTERN_MAP:
        if rng.random() < 0.5:
            return {"lookback": rng.randint(1, 15)}
        return {}
    if fn_name in ("positive", "negative"):
        return {}
    if fn_name in ("cross", "crossover", "crossunder"):
        a = rng.choice(names)
        b = rng.choice([n for n in names if n != a] or names)
        p = {"indicator_one": a, "indicator_two": b}
        if rng.random() < 0.7:
            p["length"] = rng.randint(1, 15)
        return p
    p = {"indicator": rng.choice(names)}
    if rng.random() < 0.8:
        lo = 2 if fn_name == "value_range" else 1
        p["length"] = rng.randint(lo, 15)
    return p


def sample_spec(rng, cls_name=None, allow_amorph=True, max_period=20, round_values=True):
    """A random standalone indicator spec (without timeframe / lifespan: callers add `common`)."""
    if cls_name is None:
        pool = CLASSES + (["Amorph"] * 6 if allow_amorph else [])
        cls_name = rng.choice(pool)
    if cls_name == "Amorph":
        fn = rng.choice(MOVEMENTS + PATTERNS)
        spec = {"cls": "Amorph", "analysis": fn, "params": sample_analysis(rng, fn)}
    else:
        spec = {"cls": cls_name, "params": sample_params(rng, cls_name, max_period)}
    common = {}
    if round_values and rng.random() < 0.25:
        common["round_value"] = rng.choice((0, 1, 2, 3, 5, 6, 8))
    if rng.random() < 0.08:
        # legal naming options: a suffix (dots in names are sanitised by the library)
        common["name_suffix"] = rng.choice(("x", "1.5", "v1.2", "b"))
    spec["common"] = common
    return spec


# ----------------------------------------------------------------------------- builders
# When set (minutes east of UTC) every candle built by the executor carries a fixed-offset tzinfo:
# the stream is timezone-AWARE.  Buckets are defined on the timestamps' own wall-clock axis, so every
# reference model is unchanged.  Set and reset by the executors that sample this dimension.
TZ_OFFSET_MIN = None
# When set, timestamps are instances of a trivial datetime SUBCLASS (what data frames hand over: pandas.Timestamp
# is one); they are datetimes in every respect.
STAMP_SUBCLASS = False
FOLD_ONE = False


class Stamp(datetime):
    pass


def stamp(seconds):
    t = ts(seconds)
    if TZ_OFFSET_MIN is not None:
        from datetime import timezone

        t = t.replace(tzinfo=timezone(timedelta(minutes=TZ_OFFSET_MIN)))
    if STAMP_SUBCLASS:
        t = Stamp(t.year, t.month, t.day, t.hour, t.minute, t.second, tzinfo=t.tzinfo)
    if FOLD_ONE and (seconds // 60) % 3 == 0:
        t = t.replace(fold=1)      # PEP 495 flag: means nothing for a naive wall-clock stamp (equal, same hash)
    return t


def mk_candle(row):
    return Candle(row[1], row[2], row[3], row[4], row[5], timestamp=stamp(row[0]))


def mk_candles(rows):
    return [mk_candle(r) for r in rows]


def mk_dict(row):
    return {"open": row[1], "high": row[2], "low": row[3], "close": row[4], "volume": row[5],
            "timestamp": stamp(row[0])}


def mk_list(row, ts_first=False):
    if ts_first:
        return [stamp(row[0]), row[1], row[2], row[3], row[4], row[5]]
    return [row[1], row[2], row[3], row[4], row[5], stamp(row[0])]


ENCODINGS = ["candle", "dict", "list", "candles", "dicts", "lists"]
# further equivalent encodings of the same candle data that the library documents
ENCODINGS_EXTRA = ["list_tsfirst", "lists_tsfirst", "dict_caps", "dicts_caps", "dict_iso", "dicts_iso", "lists_mixed"]
_SINGLE = {"candle": "candles", "dict": "dicts", "list": "lists", "list_tsfirst": "lists_tsfirst",
           "dict_caps": "dicts_caps", "dict_iso": "dicts_iso"}


def _mk_dict_caps(row):
    return {"Open": row[1], "High": row[2], "Low": row[3], "Close": row[4], "Volume": row[5],
            "Timestamp": stamp(row[0])}


def _mk_dict_iso(row):
    d = mk_dict(row)
    d["timestamp"] = stamp(row[0]).isoformat()
    if TZ_OFFSET_MIN == 0 and (row[0] // 60) % 2 == 0:
        # the other ISO-8601 spelling of UTC (what JSON producers emit); the same instant and offset
        d["timestamp"] = d["timestamp"].replace("+00:00", "Z")
    return d


def encode(rows, enc):
    """Encode rows for append() in one of the accepted input forms.
    Single-item encodings are only valid for exactly one row; otherwise the list-of form is used."""
    if enc in _SINGLE and len(rows) != 1:
        enc = _SINGLE[enc]
    one = {
        "candle": mk_candle, "dict": mk_dict, "list": mk_list,
        "list_tsfirst": lambda r: mk_list(r, True), "dict_caps": _mk_dict_caps, "dict_iso": _mk_dict_iso,
    }
    if enc in one:
        return one[enc](rows[0])
    many = {
        "candles": mk_candle, "dicts": mk_dict, "lists": mk_list,
        "lists_tsfirst": lambda r: mk_list(r, True), "dicts_caps": _mk_dict_caps, "dicts_iso": _mk_dict_iso,
        # both documented column layouts inside ONE chunk (timestamp first / timestamp last, by row)
        "lists_mixed": lambda r: mk_list(r, (r[0] // 60) % 2 == 0),
    }
    if enc in many:
        return [many[enc](r) for r in rows]
    raise ValueError(enc)


def common_kwargs(common):
    kw = {}
    for k, v in (common or {}).items():
        if k == "lifespan_s":
            if v is not None:
                kw["candles_lifespan"] = timedelta(seconds=v)
        elif k in ("tf_as_enum", "tf_lower", "ctype_as_object"):
            continue
        else:
            kw[k] = v
    if (common or {}).get("tf_as_enum") and kw.get("timeframe"):
        # the documented alternative form: a TimeFrame enum member instead of its string value
        from hexital.utils.timeframe import TimeFrame

        try:
            kw["timeframe"] = TimeFrame(kw["timeframe"])
        except ValueError:
            pass
    elif (common or {}).get("tf_lower") and isinstance(kw.get("timeframe"), str):
        kw["timeframe"] = kw["timeframe"].lower()   # timeframe names are case-insensitive
    if (common or {}).get("ctype_as_object") and isinstance(kw.get("candlestick_type"), str):
        from hexital.utils.candlesticks import validate_candlesticktype

        kw["candlestick_type"] = validate_candlesticktype(kw["candlestick_type"])   # object form
    return kw


def build(spec, rows=None):
    """Real Indicator object from a spec, over fresh Candle objects for `rows`."""
    kw = dict(spec.get("params") or {})
    kw.update(common_kwargs(spec.get("common")))
    if rows is not None:
        kw["candles"] = mk_candles(rows)
    if spec["cls"] == "Amorph":
        fn = (PATTERN_MAP | MOVEMENT_MAP | USER_ANALYSES)[spec["analysis"]]
        return hx_ind.Amorph(analysis=fn, **kw)
    return cls_of(spec["cls"])(**kw)


def as_dict(spec):
    """Dict form accepted by Hexital(indicators=[...])."""
    kw = dict(spec.get("params") or {})
    kw.update(common_kwargs(spec.get("common")))
    if spec["cls"] == "Amorph":
        # the movement functions take an argument called `indicator`, which as a top-level dict key
        # would name an indicator class: analysis arguments go under "args" in dict form
        return {"analysis": spec["analysis"], "args": dict(spec.get("params") or {}),
                **common_kwargs(spec.get("common"))}
    return {"indicator": map_key(spec["cls"]), **kw}


def spec_label(spec):
    if spec["cls"] == "Amorph":
        return "Amorph:" + spec["analysis"]
    return spec["cls"]


def library_version():
    return getattr(hexital, "__version__", "?")


# ----------------------------------------------------------------------------- member sets
_TR_USERS = {"ATR", "KC", "ADX", "Supertrend"}


def helper_collision(spec_a, spec_b):
    """Static rule for 'no helper-name collision' between two top-level members (C13 is the
    property that deliberately violates it): composites that leave a helper under a default name."""
    for a, b in ((spec_a, spec_b), (spec_b, spec_a)):
        if a["cls"] == "TR" and b["cls"] in _TR_USERS:
            return True
        if a["cls"] == "BBANDS" and b["cls"] in ("SMA", "StandardDeviation"):
            if a["params"].get("period", 5) == b["params"].get("period", 10 if b["cls"] == "SMA" else 30):
                return True
    return False


def member_name(spec):
    return build(spec).name


def sample_members(rng, k, timeframes=(None,), allow_amorph=True, max_period=12, classes=None):
    """k member specs with pairwise distinct names, no helper-name collisions and no input
    dependencies; each gets a timeframe drawn from `timeframes` (None = the Hexital's default)."""
    out, names = [], set()
    guard = 0
    while len(out) < k and guard < 50:
        guard += 1
        spec = sample_spec(rng, rng.choice(classes) if classes else None, allow_amorph=allow_amorph,
                           max_period=max_period)
        tf = rng.choice(timeframes)
        if tf:
            spec["common"]["timeframe"] = tf
            r = rng.random()
            if r < 0.2:
                spec["common"]["tf_as_enum"] = True
            elif r < 0.3:
                spec["common"]["tf_lower"] = True
            elif r < 0.42:
                # the same span spelled in another unit (H1 as T60): a different timeframe NAME, hence its
                # own candle manager and its own indicator name, with identical buckets
                from .world import equiv_spelling

                spec["common"]["timeframe"] = equiv_spelling(tf)
        if rng.random() < 0.06:
            # the documented way to choose the whole name (nothing of the generated name, nor the timeframe, in it)
            spec["common"].pop("name_suffix", None)
            spec["common"]["fullname_override"] = rng.choice(("slow", "trend", "sig", "line")) + str(len(out))
        name = member_name(spec)
        if name in names or any(helper_collision(spec, o) for o in out):
            continue
        names.add(name)
        out.append(spec)
    return out
