"""Helpers for the twin-based relational oracles (C01, C02, C08, C13, C14, C15 ...)."""
from __future__ import annotations

import re

from .catalogue import build
from .util import diff_field, first_diff, snap_candles


def norm_key(field, own_name):
    """Normalise a 'indicators:<key>' / 'sub:<key>' label: the subject's own name -> 'self', helper
    names derived from it -> 'self<suffix>', anything else keeps its letters with digits -> N."""
    if ":" not in field:
        return field
    kind, key = field.split(":", 1)
    if own_name and key == own_name:
        return f"{kind}:self"
    if own_name and key.startswith(own_name):
        return f"{kind}:self{key[len(own_name):]}"
    return f"{kind}:" + re.sub(r"\d+", "N", key)


def batch_twin(spec, rows, calc=True):
    """The canonical schedule: same class and parameters over a fresh copy of all candles, one
    calculate()."""
    twin = build(spec, rows)
    if calc:
        twin.calculate()
    return twin


def compare_candles(got_candles, want_candles, own_name):
    """Element-wise comparison of two candle lists incl. both reading dicts.
    Returns None or (index, normalised field, got, want)."""
    a = snap_candles(got_candles)
    b = snap_candles(want_candles)
    j = first_diff(a, b)
    if j is None:
        return None
    if j >= len(a) or j >= len(b):
        return (j, "count", len(a), len(b))
    field = norm_key(diff_field(a[j], b[j]), own_name)
    pos = "first" if j == 0 else "last" if j == len(b) - 1 else "inner"
    return (j, field + "@" + pos, a[j], b[j])


def any_reading(candles, name):
    for c in candles:
        v = c.indicators.get(name)
        if v is None:
            continue
        if isinstance(v, dict):
            if any(x is not None for x in v.values()):
                return True
        else:
            return True
    return False
