"""Planning helpers shared by the property modules: swarm selection of feed faults, stream +
delivery schedule, preload choice.  All randomness comes from sub-streams of the run seed."""
from __future__ import annotations

from collections import Counter

from . import world
from .util import sub_rng, tf_seconds

FEED_KINDS = ("drop", "halt", "dup", "jitter", "offset", "burst", "empty")


def swarm_faults(cfg, base_s, tf_s, allowed=FEED_KINDS, p_enable=0.5, halt_buckets=(10, 200),
                 force=None):
    """Pick a random subset of feed fault kinds (swarm testing) with per-run rates.
    Returns (faults dict for make_stream, burst cfg, p_empty, enabled kinds)."""
    kinds = [k for k in allowed if cfg.random() < p_enable]
    if force:
        kinds = sorted(set(kinds) | set(force))
    faults = {}
    burst = None
    p_empty = 0.0
    per_bucket = max(1, (tf_s or base_s) // base_s)
    if "drop" in kinds:
        faults["drop"] = {"p": cfg.choice((0.02, 0.05, 0.1)),
                          "max": cfg.choice((1, 3, max(2, 3 * per_bucket)))}
    if "halt" in kinds:
        faults["halt"] = {"p": cfg.choice((0.01, 0.03)), "min": 3 * per_bucket,
                          "max": cfg.choice(halt_buckets) * per_bucket}
    if "dup" in kinds:
        faults["dup"] = {"p": cfg.choice((0.03, 0.1)), "exact": cfg.choice((0.0, 0.3, 0.6))}
    if "jitter" in kinds:
        faults["jitter"] = {"p": cfg.choice((0.05, 0.3))}
    if "offset" in kinds and base_s > 1:
        faults["offset"] = cfg.randint(1, base_s - 1)
    if "burst" in kinds:
        burst = {"p": 0.08, "min": 5, "max": 60}
    if "empty" in kinds:
        p_empty = 0.08
    return faults, burst, p_empty, kinds


def pick_preload(feed, n):
    k = feed.choice((0, 0, 1, 2, feed.randint(0, n), n // 2, n))
    return min(k, n)


def preload_label(k, n):
    return "preload_%s" % ("none" if k == 0 else "one" if k == 1 else "all" if k == n else "some")


def stream_and_schedule(seed, subbatch, n, base_s, start, faults, burst, p_empty, extras=(),
                        encodings=None, preload=None, regimes=None, regime_len=(3, 40),
                        scale=100.0, float_volume=False, first_regime=None, style=None,
                        max_span_s=None):
    """Delivered stream, cut into preload + appends, interleaved with `extras` by the world loop.
    Returns (preload_rows, ops_after_new, fired, rows)."""
    rows, fired = world.make_stream(sub_rng(seed, "exchange"), n, base_s, start, faults, scale=scale,
                                    regimes=regimes, regime_len=regime_len, float_volume=float_volume,
                                    first_regime=first_regime)
    if max_span_s is not None and rows:
        keep = [r for r in rows if r[0] - rows[0][0] <= max_span_s]
        if len(keep) < len(rows):
            fired["span_truncated"] += 1
            rows = keep
    feed = sub_rng(seed, "feed")
    k = pick_preload(feed, len(rows)) if preload is None else min(preload, len(rows))
    if style is None and subbatch == "calm" and feed.random() < 0.3:
        style = "ones"
    sizes, f2 = world.make_chunks(feed, len(rows) - k, style, p_empty, burst)
    fired.update(f2)
    fired[preload_label(k, len(rows))] += 1
    ops = world.schedule(feed, rows[k:], sizes, list(extras), encodings)
    return [list(r) for r in rows[:k]], ops, fired, rows


def base_and_tf(cfg, lo=1.0, hi=20.0, p_none=0.0, allow_finer=True):
    base_s = cfg.choice(world.BASE_INTERVALS)
    if p_none and cfg.random() < p_none:
        return base_s, None, None
    tf = world.pick_timeframe(cfg, base_s, lo, hi, allow_finer)
    return base_s, tf, tf_seconds(tf)


def thorough():
    """The thorough tier explores deeper bounds (longer streams, hence more appends and operator
    actions per run); the tier is exported by the CLI and inherited by the forked workers."""
    import os

    return os.environ.get("VERIF_TIER") == "thorough"


def pick_n(cfg, small=(1, 12), mid=(5, 60), large=(20, 300)):
    if thorough():
        large = (large[0], min(2 * large[1], 700))
        mid = (mid[0], 2 * mid[1])
    return cfg.choice((cfg.randint(*small), cfg.randint(*mid), cfg.randint(*large)))


def feed_fired(fired):
    """True if any *feed* fault (not just chunking/preload labels) fired."""
    return any(v for k, v in (fired or {}).items()
               if k.split("_")[0] in ("drop", "halt", "dup", "jitter", "offgrid", "burst", "regime"))


def merge_counters(*cs):
    out = Counter()
    for c in cs:
        out.update(c)
    return out


# zones with offset changes and the local dates (naive axis) of their 2023 changes
DST_ZONES = {
    "Europe/London": [(2023, 3, 26), (2023, 10, 29)],
    "America/New_York": [(2023, 3, 12), (2023, 11, 5)],
    "Australia/Lord_Howe": [(2023, 4, 2), (2023, 10, 1)],
    "America/St_Johns": [(2023, 3, 12), (2023, 11, 5)],
    "Pacific/Chatham": [(2023, 4, 2), (2023, 9, 24)],
}


def dst_env(rng, n, base_s, p=0.1):
    """The process environment as a sampled dimension: with probability p a (zone, start) pair such that
    a stream of n candles at base_s starting at `start` (naive wall-clock seconds) straddles the small hours
    of a day on which `zone` changes its UTC offset.  None otherwise.  The library works on the timestamps'
    own wall-clock axis, so the zone of the process must not matter anywhere."""
    import calendar

    if rng.random() >= p:
        return None
    zone = rng.choice(sorted(DST_ZONES))
    y, m, d = rng.choice(DST_ZONES[zone])
    target = calendar.timegm((y, m, d, 0, 0, 0)) + rng.randint(3600, 4 * 3600)
    start = target - int(rng.random() * max(1, n) * base_s)
    start -= start % base_s
    return zone, start


def inject_shapes(rng, rows):
    """Rewrites a few candles of `rows` (lists [ts, o, h, l, c, v], modified IN PLACE) into candlestick-pattern
    shapes - hammer, inverted hammer, doji, doji star - with proportions drawn AROUND the thresholds the pattern
    functions use (fractions of the average high-low range of the ten candles before), sometimes preceded by a
    block of completely flat candles.  Random walks almost never produce these shapes, so without this the pattern
    functions mostly answer False.  Returns the number of shapes written."""
    n, done = len(rows), 0
    if n < 14:
        return 0
    for _ in range(rng.randint(1, 3)):
        i = rng.randint(11, n - 1)
        if rng.random() < 0.35:
            k = rng.randint(5, 7)
            if i - k >= 1:
                base = rows[i - k - 1][4]
                for j in range(i - k, i):
                    rows[j][1:5] = [base, base, base, base]
        prev = rows[i - 1]
        spans = [r[2] - r[3] for r in rows[max(0, i - 10):i]]
        avg = sum(spans) / len(spans)
        if avg <= 0:
            avg = rng.choice((0.5, 1.0, 2.0))
        kind = rng.choice(("hammer", "hammer", "inverted_hammer", "doji", "dojistar"))
        u = rng.uniform
        if kind == "hammer":
            body, lower, upper = avg * u(0, 0.2), avg * u(0.8, 2.5), avg * u(0, 0.08)
            bottom = prev[3] + avg * u(-0.4, 0.5)
        elif kind == "inverted_hammer":
            body, lower, upper = avg * u(0, 0.2), avg * u(0, 0.08), avg * u(0.8, 2.5)
            bottom = min(prev[1], prev[4]) - body - avg * u(-0.1, 0.5)
        else:
            body, lower, upper = avg * u(0, 0.15), avg * u(0, 0.6), avg * u(0, 0.6)
            if kind == "dojistar":
                long_body = avg * u(0.8, 2.0)
                up = rng.random() < 0.5
                o = prev[1]
                c = o + long_body if up else o - long_body
                if min(o, c) - avg <= 0:
                    continue
                prev[1:5] = [round(o, 4), round(max(o, c) + avg * u(0, 0.2), 4), round(min(o, c) - avg * u(0, 0.2), 4), round(c, 4)]
                bottom = (max(o, c) + avg * u(-0.1, 0.4)) if up else (min(o, c) - body - avg * u(-0.1, 0.4))
            else:
                bottom = prev[4] + avg * u(-0.5, 0.5)
        top = bottom + body
        low, high = bottom - lower, top + upper
        if low <= 0:
            continue
        o, c = (bottom, top) if rng.random() < 0.5 else (top, bottom)
        rows[i][1:5] = [round(o, 4), round(high, 4), round(low, 4), round(c, 4)]
        done += 1
    return done


def pick_sim_now(rng, rows):
    """Where the simulated wall clock stands for the whole run (core.run_property applies config["sim_now"]):
    None = long after every stream (the default instant), or an instant BEFORE the stream (data dated in the
    process's future: simulated or projected streams, exchange-local stamps ahead of the server) or in the
    MIDDLE of it.  The library never reads the clock at the pinned commit, so any value is sound."""
    r = rng.random()
    if not rows or r < 0.6:
        return None
    if r < 0.75:
        return rows[0][0] - 365 * 86400
    return rows[0][0] + (rows[-1][0] - rows[0][0]) // 2
