"""Small shared helpers: seed derivation, canonical freezing / hashing, time axis.

Nothing in here draws from a PRNG or reads a clock.
"""
from __future__ import annotations

import hashlib
import json
import math
import random
from datetime import datetime, timedelta

EPOCH = datetime(1970, 1, 1)


# ----------------------------------------------------------------------------- seeds
def derive_seed(*parts) -> int:
    """64-bit seed from arbitrary labelled parts (SHA-256); independent of process / worker."""
    h = hashlib.sha256("\x1f".join(str(p) for p in parts).encode()).digest()
    return int.from_bytes(h[:8], "big")


def sub_rng(seed: int, label: str) -> random.Random:
    """Independent sub-stream for one concern (config, exchange, feed, operator...)."""
    return random.Random(derive_seed(seed, label))


# ----------------------------------------------------------------------------- time axis
def ts(seconds: int) -> datetime:
    """Naive datetime for integer seconds since 1970-01-01 on the naive axis (no zone involved)."""
    return EPOCH + timedelta(seconds=seconds)


def secs(stamp: datetime) -> int:
    """Integer seconds of a datetime on its OWN wall-clock axis (pure arithmetic, zone independent;
    an aware datetime is read by its wall-clock fields, its offset is ignored)."""
    if stamp.tzinfo is not None:
        stamp = stamp.replace(tzinfo=None)
    d = stamp - EPOCH
    return d.days * 86400 + d.seconds


TF_UNITS = {"S": 1, "T": 60, "H": 3600, "D": 86400}


def tf_seconds(tf: str) -> int:
    return TF_UNITS[tf[0].upper()] * int(tf[1:])


# ----------------------------------------------------------------------------- canonical values
def freeze(value):
    """Canonical, hashable, comparable form of a reading (None / bool / number / dict of those).

    NaN is mapped to a string so that NaN on both sides of a relational oracle compares equal
    (NaN-ness is C09's subject, not the relational properties').
    """
    if isinstance(value, dict):
        return tuple((k, freeze(v)) for k, v in sorted(value.items(), key=lambda kv: str(kv[0])))
    if isinstance(value, float):
        if math.isnan(value):
            return "nan"
        return value
    if isinstance(value, (list, tuple)):
        return tuple(freeze(v) for v in value)
    if isinstance(value, datetime):
        return ("dt", secs(value), value.microsecond)
    if isinstance(value, timedelta):
        return ("td", value.total_seconds())
    if value is None or isinstance(value, (bool, int, str)):
        return value
    return ("obj", type(value).__name__, repr(value))


def candle_core(c):
    """(timestamp seconds | None, open, high, low, close, volume) of a real Candle."""
    t = c.timestamp
    return (secs(t) if t is not None else None, c.open, c.high, c.low, c.close, c.volume)


def candle_full(c):
    """Core + both reading dictionaries, canonical."""
    return candle_core(c) + (freeze(c.indicators), freeze(c.sub_indicators))


def snap_candles(candles):
    return [candle_full(c) for c in candles]


def snap_cores(candles):
    return [candle_core(c) for c in candles]


def jsonable(value):
    """Best-effort JSON form of frozen values / details for replay records."""
    if isinstance(value, (tuple, list)):
        return [jsonable(v) for v in value]
    if isinstance(value, dict):
        return {str(k): jsonable(v) for k, v in value.items()}
    if isinstance(value, float):
        if math.isnan(value) or math.isinf(value):
            return repr(value)
        return value
    if value is None or isinstance(value, (bool, int, str)):
        return value
    if isinstance(value, datetime):
        return value.isoformat()
    return repr(value)


def digest(obj) -> str:
    """Stable hash of a canonical python structure (repr is stable for the types freeze() yields)."""
    return hashlib.sha256(repr(obj).encode()).hexdigest()[:20]


def canonical_json(obj) -> str:
    return json.dumps(obj, sort_keys=True, separators=(",", ":"))


def first_diff(a, b):
    """Index of first differing element of two sequences (or min len if one is a prefix), else None."""
    n = min(len(a), len(b))
    for i in range(n):
        if a[i] != b[i]:
            return i
    if len(a) != len(b):
        return n
    return None


def diff_field(fa, fb):
    """Given two candle_full tuples, name what differs: 'timestamp'/'ohlcv'/'indicators:<key>'/'sub:<key>'."""
    if fa[0] != fb[0]:
        return "timestamp"
    if fa[1:6] != fb[1:6]:
        return "ohlcv"
    for label, xa, xb in (("indicators", fa[6], fb[6]), ("sub", fa[7], fb[7])):
        if xa != xb:
            da, db = dict(xa), dict(xb)
            for k in sorted(set(da) | set(db), key=str):
                if da.get(k, "<absent>") != db.get(k, "<absent>"):
                    return f"{label}:{k}"
    return "same"
