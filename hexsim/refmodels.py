"""Small executable reference models of *structural* behaviour (no indicator formulas).

All work on rows `[ts_seconds, o, h, l, c, v]` with integer arithmetic on the naive time axis.
"""
from __future__ import annotations


def bucket_label(ts_s: int, tf_s: int) -> int:
    """End of the right-closed bucket (k*tf, (k+1)*tf] that contains ts (its label)."""
    return -(-ts_s // tf_s) * tf_s


def resample(rows, tf_s):
    """Right-closed, right-labelled OHLCV resampling; one output row per non-empty bucket."""
    out = []
    for r in rows:
        lab = bucket_label(r[0], tf_s)
        if out and out[-1][0] == lab:
            b = out[-1]
            if r[2] > b[2]:
                b[2] = r[2]
            if r[3] < b[3]:
                b[3] = r[3]
            b[4] = r[4]
            b[5] = b[5] + r[5]
        else:
            out.append([lab, r[1], r[2], r[3], r[4], r[5]])
    return out


def fill(buckets, tf_s):
    """Insert flat zero-volume candles so that consecutive buckets are exactly tf apart.
    Returns (rows, inserted_flags)."""
    out = []
    flags = []
    for b in buckets:
        if out:
            t = out[-1][0] + tf_s
            while t < b[0]:
                c = out[-1][4]
                out.append([t, c, c, c, c, 0])
                flags.append(True)
                t += tf_s
        out.append(list(b))
        flags.append(False)
    return out, flags


def trim(ts_list, lifespan_s):
    """Indices retained by a lifespan window: ts >= newest - lifespan."""
    if not ts_list:
        return []
    newest = ts_list[-1]
    return [i for i, t in enumerate(ts_list) if t >= newest - lifespan_s]


def heikin_ashi(rows):
    """The HA recurrence applied to raw rows (timestamps and volume unchanged)."""
    out = []
    for i, r in enumerate(rows):
        t, o, h, l, c, v = r
        ha_c = (o + h + l + c) / 4
        if i == 0:
            ha_o = (o + c) / 2
        else:
            ha_o = (out[-1][1] + out[-1][4]) / 2
        ha_h = max(h, ha_o, ha_c)
        ha_l = min(l, ha_o, ha_c)
        out.append([t, ha_o, ha_h, ha_l, ha_c, v])
    return out


def classify_situations(rows, tf_s):
    """Reach probe for the collapse branches: which situation each delivered candle creates
    relative to the previous one (by reference bucket arithmetic)."""
    from collections import Counter

    c = Counter()
    prev_lab = None
    for i, r in enumerate(rows):
        lab = bucket_label(r[0], tf_s)
        on_edge = r[0] % tf_s == 0
        if i == 0:
            c["first_on_edge" if on_edge else "first_off_edge"] += 1
        elif lab == prev_lab:
            if r[0] == rows[i - 1][0]:
                c["dup_timestamp"] += 1
            elif on_edge:
                c["same_bucket_closing_edge"] += 1
            else:
                c["same_bucket"] += 1
        elif lab == prev_lab + tf_s:
            c["next_bucket_on_edge" if on_edge else "next_bucket"] += 1
        else:
            c["jump_on_edge" if on_edge else "jump_off_edge"] += 1
        prev_lab = lab
    return c
