"""The simulated world: market clock + exchange + feed (fault injector) + operator/observer scheduling.

Everything here runs WITHOUT the library: the world loop pops events from a discrete-event queue in
(sim_time, seq) order and emits an explicit op list (the trace).  All randomness comes from the
`random.Random` objects handed in (derived from the run seed); nothing reads a real clock.

Rows are `[ts_seconds, open, high, low, close, volume]` with ts on the naive axis (seconds since
1970-01-01, no zone).  All rows are well-formed: low <= open, close <= high, positive finite prices,
volume >= 0, non-decreasing second-resolution timestamps.
"""
from __future__ import annotations

import heapq
from collections import Counter

# 2023-01-01 00:00:00 on the naive axis
T2023 = 1672531200

TIMEFRAMES = [
    "S1", "S5", "S10", "S15", "S30", "S45", "S90",
    "T1", "T2", "T3", "T4", "T5", "T7", "T10", "T15", "T30", "T45", "T90",
    "H1", "H2", "H3", "H4", "H7",
    "D1", "D2", "D7",
]
BASE_INTERVALS = [1, 5, 15, 30, 60, 300, 900, 1800, 3600, 21600, 43200]

REGIMES_NORMAL = ["range", "trend_up", "trend_down"]
REGIMES_DEGENERATE = ["stall", "stall0", "zerovol", "oneside_up", "oneside_down"]


class EventQueue:
    """Priority queue of (sim_time, seq, kind, payload); seq makes the order total."""

    def __init__(self):
        self._q = []
        self._seq = 0
        self.now = None

    def push(self, t, kind, payload=None):
        self._seq += 1
        heapq.heappush(self._q, (t, self._seq, kind, payload))

    def pop(self):
        t, seq, kind, payload = heapq.heappop(self._q)
        self.now = t  # clock jumps straight to the next event
        return t, seq, kind, payload

    def __len__(self):
        return len(self._q)


class Exchange:
    """Regime-switching price process on a fixed base interval; prices are integer ticks."""

    def __init__(self, rng, base_s, start_s, scale=100.0, regimes=None, regime_len=(3, 40),
                 float_volume=False, first_regime=None):
        self.rng = rng
        self.base_s = base_s
        self.t = start_s
        self.tick = scale / 1000.0
        self.p = rng.randint(600, 1400)  # close in ticks
        self.regimes = regimes or REGIMES_NORMAL
        self.regime_len = regime_len
        self.float_volume = float_volume
        self.regime = None
        self.left = 0
        self.first_regime = first_regime
        self.emitted = Counter()

    def _price(self, ticks):
        return round(ticks * self.tick, 8)

    def _pick(self):
        if self.first_regime is not None:
            self.regime = self.first_regime
            self.first_regime = None
        else:
            self.regime = self.rng.choice(self.regimes)
        lo, hi = self.regime_len
        self.left = self.rng.randint(lo, hi)

    def skip(self, n_intervals):
        self.t += n_intervals * self.base_s

    def next(self):
        rng = self.rng
        if self.left <= 0:
            self._pick()
        self.left -= 1
        reg = self.regime
        self.emitted[reg] += 1
        o = self.p
        vol = rng.randint(1, 5000)
        if reg == "range":
            c = o + rng.randint(-8, 8)
        elif reg == "trend_up":
            c = o + rng.randint(-3, 9)
        elif reg == "trend_down":
            c = o + rng.randint(-9, 3)
        elif reg == "oneside_up":
            c = o + rng.randint(1, 6)
        elif reg == "oneside_down":
            c = o - rng.randint(1, 6)
        elif reg in ("stall", "stall0"):
            c = o
        elif reg == "zerovol":
            c = o + rng.randint(-8, 8)
        else:  # pragma: no cover
            raise ValueError(reg)
        c = max(c, 20)
        if reg in ("stall", "stall0"):
            h = l = o
        else:
            h = max(o, c) + rng.choice((0, 0, 1, 2, 3, 5))
            l = max(min(o, c) - rng.choice((0, 0, 1, 2, 3, 5)), 10)
            if rng.random() < 0.15:  # occasional gap between candles
                pass
        if reg in ("stall0", "zerovol"):
            vol = 0
        if self.float_volume:
            vol = float(vol)
        row = [self.t, self._price(o), self._price(h), self._price(l), self._price(c), vol]
        self.p = c
        # occasional opening gap for the next candle
        if reg not in ("stall", "stall0", "oneside_up", "oneside_down") and rng.random() < 0.1:
            self.p = max(c + rng.randint(-6, 6), 20)
        self.t += self.base_s
        return row


def make_stream(rng, n, base_s, start_s, faults, scale=100.0, regimes=None, regime_len=(3, 40),
                float_volume=False, first_regime=None):
    """Exchange + feed faults -> delivered stream (list of rows) and `fired` counters.

    faults: dict of kind -> parameters (absent kind = disabled):
      drop:    {"p": prob per candle of starting a loss, "max": longest run of lost candles}
      halt:    {"p": prob per candle, "min": .., "max": ..}   outage in base intervals
      dup:     {"p": prob per candle that a second candle with the same timestamp follows}
      jitter:  {"p": prob per candle that its timestamp is moved off the grid (kept monotone)}
      offset:  seconds added to every timestamp (first candle on / off a bucket edge)
      halt_to_window: {"p", "lifespan_s", "interval_s", "kmin", "kmax", "after"} outage of
               (lifespan - k*interval): leaves about k predecessors inside a lifespan window
    """
    fired = Counter()
    ex = Exchange(rng, base_s, start_s, scale, regimes, regime_len, float_volume, first_regime)
    rows = []
    drop = faults.get("drop")
    halt = faults.get("halt")
    dup = faults.get("dup")
    jitter = faults.get("jitter")
    tight = faults.get("halt_to_window")
    offset = faults.get("offset", 0)
    if offset:
        fired["offgrid_offset"] += 1
    dropping = 0
    produced = 0
    guard = 0
    while len(rows) < n and guard < 20 * n + 100:
        guard += 1
        row = ex.next()
        produced += 1
        if dropping > 0:
            dropping -= 1
            fired["drop_candles"] += 1
            continue
        if drop and rows and rng.random() < drop["p"]:
            dropping = rng.randint(1, drop["max"]) - 1
            fired["drop"] += 1
            fired["drop_candles"] += 1
            continue
        row[0] += offset
        if jitter and base_s > 1 and rng.random() < jitter["p"]:
            row[0] += rng.randint(1, base_s - 1)
            fired["jitter"] += 1
        if rows and row[0] < rows[-1][0]:
            row[0] = rows[-1][0]
        rows.append(row)
        if dup and rng.random() < dup["p"] and len(rows) < n:
            if rng.random() < dup.get("exact", 0.0):
                d = list(row)   # the feed re-sends the very same candle
                fired["dup_exact"] += 1
            else:
                d = ex.next()
                ex.t -= base_s  # the duplicate does not advance the market clock
                d[0] = row[0]
            rows.append(d)
            fired["dup"] += 1
        if tight and len(rows) >= tight.get("after", 0) and rng.random() < tight["p"]:
            # outage sized so that exactly k predecessors (+ the last candle before the outage) are
            # still inside a lifespan window when trading resumes
            k = rng.randint(tight["kmin"], tight["kmax"])
            gap_s = tight["lifespan_s"] - k * tight["interval_s"]
            skip = max(1, -(-gap_s // base_s)) - 1
            if skip > 0:
                ex.skip(skip)
                fired["halt_to_window"] += 1
                fired["halt_to_window_k=%d" % k] += 1
        if halt and rng.random() < halt["p"]:
            k = rng.randint(halt["min"], halt["max"])
            ex.skip(k)
            fired["halt"] += 1
            fired["halt_intervals"] += k
    for reg, cnt in ex.emitted.items():
        if reg in REGIMES_DEGENERATE:
            fired["regime_" + reg] += cnt
    return rows, fired


CHUNK_STYLES = ["ones", "geometric", "few_large", "one_giant", "mixed", "pairs"]


def make_chunks(rng, n, style=None, p_empty=0.0, burst=None):
    """Cut n delivered candles into append sizes (zeros = empty appends). Returns (sizes, fired)."""
    fired = Counter()
    if style is None:
        style = rng.choice(CHUNK_STYLES)
    sizes = []
    left = n
    giant_at = rng.randint(0, max(0, n - 1)) if style == "one_giant" else None
    while left > 0:
        if p_empty and rng.random() < p_empty:
            sizes.append(0)
            fired["empty"] += 1
            continue
        if style == "ones":
            k = 1
        elif style == "pairs":
            k = rng.choice((1, 2, 2, 3))
        elif style == "geometric":
            k = 1
            while rng.random() < 0.55 and k < left:
                k += 1
        elif style == "few_large":
            k = rng.randint(max(1, n // 6), max(1, n // 2))
        elif style == "one_giant":
            done = n - left
            if giant_at is not None and done >= giant_at:
                k = rng.randint(max(1, left // 2), left)
                giant_at = None
            else:
                k = 1
        else:  # mixed
            k = rng.choice((1, 1, 1, 2, 3, 5, 8, 13, rng.randint(1, max(1, n // 3))))
        if burst and rng.random() < burst["p"]:
            k = max(k, rng.randint(burst["min"], burst["max"]))
            fired["burst"] += 1
        k = min(k, left)
        sizes.append(k)
        left -= k
    fired["chunk_style_" + style] += 1
    return sizes, fired


def schedule(rng, rows, sizes, extras, encodings=None):
    """Run the world loop: deliveries and operator/observer events -> ordered op list.

    rows:    delivered stream
    sizes:   append sizes (sum == len(rows))
    extras:  list of (position in [0,1], op dict) -- operator / observer / environment actions; the
             position is mapped to a sim time between first and last delivery
    encodings: optional list of encodings to sample per append
    """
    q = EventQueue()
    if rows:
        t0, t1 = rows[0][0], rows[-1][0]
    else:
        t0, t1 = T2023, T2023 + 1
    span = max(1, t1 - t0)
    i = 0
    last_t = t0
    for k in sizes:
        batch = rows[i:i + k]
        i += k
        if batch:
            last_t = batch[-1][0]
        # delivered one "latency" tick after the close of the last candle in the batch
        q.push(last_t * 4 + 1, "deliver", batch)
    for pos, op in extras:
        q.push((t0 + int(pos * span)) * 4 + 2, "action", op)
    ops = []
    while len(q):
        t, seq, kind, payload = q.pop()
        if kind == "deliver":
            op = {"op": "append", "candles": [list(r) for r in payload]}
            if encodings:
                op["enc"] = rng.choice(encodings)
            ops.append(op)
        else:
            ops.append(dict(payload))
    return ops


def pick_timeframe(rng, base_s, lo=1.0, hi=20.0, allow_finer=True):
    """Timeframe name whose bucket holds between lo and hi base candles (or, rarely, is finer
    than the base interval)."""
    from .util import tf_seconds

    cands = [tf for tf in TIMEFRAMES if lo <= tf_seconds(tf) / base_s <= hi]
    if allow_finer and rng.random() < 0.08:
        finer = [tf for tf in TIMEFRAMES if tf_seconds(tf) < base_s]
        if finer:
            return rng.choice(finer)
    if not cands:
        cands = [tf for tf in TIMEFRAMES if tf_seconds(tf) >= base_s][:4] or ["D1"]
    return rng.choice(cands)


def equiv_spelling(tf):
    """Another legal spelling of the same span in a different unit (H1 -> T60, T1 -> S60, D1 -> H24)."""
    unit, n = tf[0].upper(), int(tf[1:])
    if unit == "S":
        return f"T{n // 60}" if n % 60 == 0 else tf
    if unit == "T":
        return f"H{n // 60}" if n % 60 == 0 else f"S{n * 60}"
    if unit == "H":
        return f"D{n // 24}" if n % 24 == 0 else f"T{n * 60}"
    return f"H{n * 24}"


def day_shifted(tf, days=1):
    """A different timeframe whose span differs from tf's by a whole number of days (H1 -> H25)."""
    unit, n = tf[0].upper(), int(tf[1:])
    per_day = {"S": 86400, "T": 1440, "H": 24, "D": 1}[unit]
    return f"{unit}{n + days * per_day}"


def pick_start(rng, base_s, tf_s=None, mode=None):
    """Start time: a random moment in 2023 aligned to the base grid; `mode` places the first candle
    exactly on / just after / just before a bucket edge of tf."""
    day = rng.randint(0, 360)
    start = T2023 + day * 86400 + rng.randint(0, 86399)
    if rng.random() < 0.04:
        # history from before the epoch (1960s data): bucket indices are negative there
        start -= 60 * 365 * 86400
    start -= start % base_s
    if tf_s:
        mode = mode or rng.choice(("any", "on_edge", "after_edge", "before_edge"))
        if mode == "on_edge":
            start -= start % tf_s
        elif mode == "after_edge":
            start -= start % tf_s
            start += base_s if base_s < tf_s else 1
        elif mode == "before_edge":
            start -= start % tf_s
            start -= base_s if base_s < tf_s else 1
    return start


def market_time(ops):
    """Simulated market time covered by a trace: last minus first delivered timestamp."""
    first = last = None
    for op in ops:
        for r in op.get("candles", ()) or ():
            if first is None:
                first = r[0]
            last = r[0]
        for r in op.get("preload", ()) or ():
            if first is None:
                first = r[0]
            last = r[0]
    if first is None:
        return 0
    return max(0, last - first)
