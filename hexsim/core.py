"""Executor-side plumbing shared by all property modules: verdicts, violation signalling,
guarded library calls (step budget + exception site), run bookkeeping."""
from __future__ import annotations

import os
import traceback
from collections import Counter
from dataclasses import dataclass, field

from . import steps
from .util import digest


class Violation(Exception):
    def __init__(self, oracle, subject, site, detail=None):
        super().__init__(f"{oracle}/{subject}/{site}")
        self.oracle = oracle
        self.subject = subject
        self.site = site
        self.detail = detail or {}


class Discard(Exception):
    def __init__(self, reason):
        super().__init__(reason)
        self.reason = reason


@dataclass
class Verdict:
    status: str  # "ok" | "violation" | "discard"
    signature: str = ""
    detail: dict = field(default_factory=dict)
    op_index: int = -1
    stats: Counter = field(default_factory=Counter)
    nontrivial: bool = False
    digest: str = ""
    states: set = field(default_factory=set)

    def brief(self):
        return {"status": self.status, "signature": self.signature, "op_index": self.op_index,
                "detail": self.detail, "digest": self.digest}


_HEX_ROOT = None


def hex_root():
    global _HEX_ROOT
    if _HEX_ROOT is None:
        import hexital

        _HEX_ROOT = os.path.dirname(os.path.abspath(hexital.__file__)) + os.sep
    return _HEX_ROOT


def exc_site(exc) -> str:
    """`ExcType@file.py:function` of the innermost hexital frame the exception passed through."""
    root = hex_root()
    site = None
    for fs in traceback.extract_tb(exc.__traceback__):
        if fs.filename.startswith(root):
            site = f"{os.path.basename(fs.filename)}:{fs.name}"
    return f"{type(exc).__name__}@{site or 'outside-hexital'}"


def filled_size(rows, timeframes):
    """Number of candles the library may legitimately hold/compute for `rows`: with gap filling one
    candle per bucket of the covered span and timeframe.  Step budgets scale with this, not only with
    the number of delivered candles."""
    from .util import tf_seconds

    n = len(rows)
    if rows:
        span = rows[-1][0] - rows[0][0]
        for tf in timeframes:
            if tf:
                n += span // tf_seconds(tf)
    return n


class LibError(Exception):
    """An exception that escaped a library call (wrapped, with its site)."""

    def __init__(self, exc):
        super().__init__(repr(exc))
        self.exc = exc
        self.site = exc_site(exc)
        self.type = type(exc).__name__


class Run:
    """Bookkeeping of one execution: stats, abstract states, observable digest, current op index."""

    def __init__(self, trace):
        self.trace = trace
        self.stats = Counter()
        self.states = set()
        self.obs = []
        self.op_index = -1
        self.nontrivial = False

    def observe(self, *things):
        self.obs.append(digest(things))

    def state(self, *labels):
        self.states.add("|".join(str(x) for x in labels))

    def call(self, n_candles, fn, *args, **kwargs):
        """Call into the library under the step budget; any exception is wrapped in LibError."""
        try:
            return steps.guarded(steps.op_limit(n_candles), fn, *args, **kwargs)
        except (Violation, Discard):
            raise
        except MemoryError:
            raise
        except BaseException as exc:  # noqa: BLE001 - the library may raise anything
            if isinstance(exc, (KeyboardInterrupt, SystemExit)):
                raise
            raise LibError(exc) from exc

    def finish(self, status="ok", signature="", detail=None):
        return Verdict(status=status, signature=signature, detail=detail or {},
                       op_index=self.op_index, stats=self.stats, nontrivial=self.nontrivial,
                       digest=digest(self.obs), states=self.states)


def run_property(prop_id, body, trace):
    """Wrap a property's execute body: maps Violation / Discard to verdicts."""
    from . import simclock

    import time as _time

    simclock.install()
    sim_now = (trace.get("config") or {}).get("sim_now")
    simclock.set_now(simclock.DEFAULT_NOW if sim_now is None else sim_now)
    reads0 = simclock.reads
    run = Run(trace)
    # the process environment is part of the trace: a time zone (with offset changes) for the whole run
    zone = (trace.get("config") or {}).get("process_tz")
    if zone:
        os.environ["TZ"] = zone
        _time.tzset()
        run.stats["reach:process_zone_with_offset_changes"] += 1
    try:
        try:
            body(run)
        finally:
            if zone:
                os.environ["TZ"] = "UTC"
                _time.tzset()
            if simclock.reads != reads0:
                run.stats["reach:simulated_clock_reads_by_library"] += simclock.reads - reads0
    except Violation as v:
        sig = f"{prop_id}/{v.oracle}/{v.subject}/{v.site}"
        return run.finish("violation", sig, v.detail)
    except Discard as d:
        run.stats["discard:" + d.reason] += 1
        return run.finish("discard", d.reason)
    return run.finish("ok")
