"""Batch driver: seeded runs on a fork pool, violation handling (shrink, replay file, fresh-process
confirmation, known findings), evidence writing.

Exit codes: 0 property held on everything explored (KNOWN-FINDING lines possible);
            1 VIOLATION printed; 2 harness error (never a pass, never a violation).
"""
from __future__ import annotations

import faulthandler
import importlib
import json
import os
import resource
import subprocess
import sys
import time
import traceback
from collections import Counter
from concurrent.futures import FIRST_COMPLETED, ProcessPoolExecutor, wait
from multiprocessing import get_context

from . import shrink as shrinker
from .core import Verdict
from .util import canonical_json, derive_seed, digest, jsonable
from .world import market_time

VERIF = os.path.dirname(os.path.dirname(os.path.abspath(__file__)))
CLAIMED = ["C01", "C02", "C03", "C07", "C08", "C09", "C11", "C12", "C13", "C14", "C15", "C16",
           "C18", "C19", "C20"]

EXIT_OK, EXIT_VIOLATION, EXIT_HARNESS = 0, 1, 2


def load_prop(prop_id):
    return importlib.import_module(f"hexsim.props.{prop_id.lower()}")


def run_seed(base_seed, prop, index):
    sub = prop.SUBBATCHES[index % len(prop.SUBBATCHES)]
    return derive_seed(base_seed, prop.ID, sub, index), sub


def plan_run(base_seed, prop, index):
    seed, sub = run_seed(base_seed, prop, index)
    trace = prop.plan(seed, sub)
    trace["index"] = index
    return trace


def schedule_shape(trace):
    """Composition of the stream into appends (sizes), for the distinct-schedules measure."""
    return tuple(len(op.get("candles") or ()) for op in trace["ops"] if op["op"] == "append")


# ----------------------------------------------------------------------------- worker side
def _worker_init():
    try:
        soft = 3 * 1024 ** 3
        resource.setrlimit(resource.RLIMIT_AS, (soft, soft))
    except Exception:  # noqa: BLE001
        pass
    faulthandler.enable()


def _work(prop_id, base_seed, start, end, dsample):
    prop = load_prop(prop_id)
    out = []
    for index in range(start, end):
        t0 = time.perf_counter()
        try:
            trace = plan_run(base_seed, prop, index)
            v = prop.execute(trace)
            rec = {
                "i": index, "sub": trace["subbatch"], "status": v.status, "sig": v.signature,
                "digest": v.digest, "nontrivial": v.nontrivial, "stats": dict(v.stats),
                "states": sorted(v.states), "fired": trace.get("fired") or {},
                "shape": digest(schedule_shape(trace)), "mtime": market_time(trace["ops"]),
                "n_ops": len(trace["ops"]), "tdigest": digest(canonical_json(trace["ops"])),
                "op_index": v.op_index,
            }
            if dsample and index % dsample == 0:
                v2 = prop.execute(plan_run(base_seed, prop, index))
                rec["redo_ok"] = (v2.digest == v.digest and v2.status == v.status
                                  and v2.signature == v.signature)
        except MemoryError:
            rec = {"i": index, "status": "harness", "error": "MemoryError in worker"}
        except Exception:  # noqa: BLE001
            rec = {"i": index, "status": "harness", "error": traceback.format_exc()}
        rec["dt"] = time.perf_counter() - t0
        out.append(rec)
    return out


def _in_child(fn, *args):
    """Run fn(*args) in a forked child of this (pristine) worker and return its pickled result.  Every chunk
    of runs therefore starts from the same process state: whatever the library keeps between objects
    (module-level caches, class attributes) can only come from EARLIER RUNS OF THE SAME CHUNK, which makes a
    violation that needs such history replayable as a sequence of traces."""
    import pickle

    r, w = os.pipe()
    pid = os.fork()
    if pid == 0:
        code = 0
        try:
            os.close(r)
            data = pickle.dumps(fn(*args))
            with os.fdopen(w, "wb") as fh:
                fh.write(data)
        except BrokenPipeError:
            code = 1      # the batch was stopped (violation found elsewhere): nobody is listening any more
        except BaseException:  # noqa: BLE001
            traceback.print_exc()
            code = 1
        finally:
            os._exit(code)
    os.close(w)
    with os.fdopen(r, "rb") as fh:
        data = fh.read()
    _, status = os.waitpid(pid, 0)
    if status != 0 or not data:
        raise RuntimeError(f"chunk child failed (wait status {status})")
    return pickle.loads(data)


def _work_isolated(prop_id, base_seed, start, end, dsample):
    recs = _in_child(_work, prop_id, base_seed, start, end, dsample)
    for rec in recs:
        rec["chunk_start"] = start
    return recs


def _replay_task(prop_id, paths):
    """Replays committed reproducers (in a child of a pristine worker); returns [(path, status, signature, error)]."""
    def go():
        out = []
        for path in paths:
            try:
                v, _rec = replay_file(path)
                out.append((path, v.status, v.signature, None))
            except Exception:  # noqa: BLE001
                out.append((path, "error", "", traceback.format_exc()))
        return out
    return _in_child(go)


# ----------------------------------------------------------------------------- known findings
def load_known():
    path = os.path.join(VERIF, "known_findings.json")
    if not os.path.exists(path):
        return []
    with open(path) as fh:
        return json.load(fh).get("findings", [])


def known_match(known, prop_id, signature):
    for k in known:
        if k.get("status") == "known" and k["property"] == prop_id and k["signature"] == signature:
            return k
    return None


# ----------------------------------------------------------------------------- replay
def write_replay(prop_id, trace, verdict):
    d = os.path.join(VERIF, "replays", prop_id)
    if evidence_dir() != os.path.join(VERIF, "evidence"):
        d = os.path.join("/tmp", "hexsim-scratch-replays", prop_id)
    os.makedirs(d, exist_ok=True)
    path = os.path.join(d, f"{trace.get('seed', 0)}.json")
    rec = dict(trace)
    rec["verdict"] = jsonable(verdict.brief())
    rec["hashseed"] = os.environ.get("PYTHONHASHSEED", "0")
    rec["import_tz"] = os.environ.get("HEXSIM_IMPORT_TZ")
    with open(path, "w") as fh:
        json.dump(rec, fh, indent=1)
    return path


def replay_file(path):
    """Re-execute a replay file in THIS interpreter; returns (verdict, recorded_verdict)."""
    with open(path) as fh:
        trace = json.load(fh)
    prop = load_prop(trace["property"])
    if "sequence" in trace:
        # a history of several runs in ONE process (hidden process-global state in the library): the earlier
        # traces are executed for their side effects, the verdict of the last one decides
        v = None
        for t in trace["sequence"]:
            v = prop.execute(t)
        return v, trace.get("verdict") or {}
    v = prop.execute(trace)
    return v, trace.get("verdict") or {}


def replay_fresh(path):
    """Replay in a fresh interpreter through the launcher; returns (exit code, stdout)."""
    env = dict(os.environ)
    p = subprocess.run([os.path.join(VERIF, "check"), "replay", path], capture_output=True,
                       text=True, env=env, timeout=600)
    return p.returncode, p.stdout + p.stderr


# ----------------------------------------------------------------------------- the batch
def run_check(prop_id, tier, base_seed, budget_s, jobs, max_runs=None, quiet=False):
    prop = load_prop(prop_id)
    t_start = time.time()
    known = load_known()
    chunk = getattr(prop, "CHUNK", 24)
    dsample = 50 if tier == "quick" else 200
    agg = {
        "evaluations": 0, "status": Counter(), "stats": Counter(), "fired": Counter(),
        "digests": set(), "shapes": set(), "states": set(), "mtime": 0, "subs": Counter(),
        "samples": {}, "known_hit": Counter(), "dt": 0.0, "redo": 0, "nontrivial_runs": 0,
        "nontrivial_by_sub": Counter(), "runs_by_sub": Counter(), "redo_mismatch": [],
    }
    # regression: reproducers of fixed (and known) findings are replayed first; a fixed one that
    # violates again is reported like any other violation (a fixed entry suppresses nothing)
    pending = {}  # start index -> future
    results = {}  # start index -> list
    next_start = 0
    merged_upto = 0
    stop_reason = None
    violation = None
    harness_error = None
    ctx = get_context("fork")
    deadline = t_start + budget_s
    wall_guard = budget_s + 300  # watchdog: a worker stuck this long is a harness error
    with ProcessPoolExecutor(max_workers=jobs, mp_context=ctx, initializer=_worker_init) as pool:
        try:
            reg = _replay_reproducers(prop, known, agg, pool)
            if reg is not None:
                code, vio_info = reg
                wall = time.time() - t_start
                agg["evaluations"] = max(agg["evaluations"], 1)
                if not os.environ.get("HEXSIM_LEG"):
                    write_evidence(prop, tier, base_seed, agg, wall, code, vio_info, jobs)
                return code
            while True:
                now = time.time()
                can_submit = (now < deadline and stop_reason is None
                              and (max_runs is None or next_start < max_runs))
                while can_submit and len(pending) < jobs * 2:
                    end = next_start + chunk
                    if max_runs is not None:
                        end = min(end, max_runs)
                    fut = pool.submit(_work_isolated, prop_id, base_seed, next_start, end, dsample)
                    pending[next_start] = fut
                    next_start = end
                    if max_runs is not None and next_start >= max_runs:
                        break
                if not pending:
                    break
                done, _ = wait(list(pending.values()), timeout=5, return_when=FIRST_COMPLETED)
                if not done and time.time() - t_start > wall_guard:
                    harness_error = "watchdog: workers did not finish"
                    break
                for s in [s for s, f in pending.items() if f.done()]:
                    f = pending.pop(s)
                    try:
                        results[s] = f.result()
                    except Exception as exc:  # noqa: BLE001  (BrokenProcessPool etc.)
                        harness_error = f"worker crashed: {exc!r}"
                        break
                if harness_error:
                    break
                # merge strictly in run-index order so the outcome is independent of worker count
                while merged_upto in results:
                    recs = results.pop(merged_upto)
                    for rec in recs:
                        if violation is not None:
                            break
                        r = _merge(agg, rec, prop, base_seed, known)
                        if r == "harness":
                            harness_error = rec.get("error", "harness error in worker")
                            break
                        if r == "violation":
                            violation = rec
                            stop_reason = "violation"
                    merged_upto = recs[-1]["i"] + 1 if recs else merged_upto + chunk
                    if harness_error or violation:
                        break
                if harness_error or violation:
                    break
        finally:
            for f in pending.values():
                f.cancel()
            procs = list((getattr(pool, "_processes", None) or {}).values())
            pool.shutdown(wait=False, cancel_futures=True)
            for p in procs:
                try:
                    p.terminate()
                except Exception:  # noqa: BLE001
                    pass

    code = EXIT_OK
    vio_info = None
    if harness_error:
        print(f"HARNESS-ERROR property={prop_id} {harness_error}", flush=True)
        code = EXIT_HARNESS
    elif violation is not None:
        code, vio_info = _handle_violation(prop, base_seed, violation, known, agg)
    if code == EXIT_OK and agg["redo_mismatch"]:
        print(f"HARNESS-ERROR property={prop_id} determinism: run(s) {agg['redo_mismatch'][:5]} gave a different "
              f"digest when re-executed in the same process (harness nondeterminism or hidden process-global "
              f"state in the library)", flush=True)
        code = EXIT_HARNESS
    # vacuity guard
    if code == EXIT_OK:
        calm = prop.SUBBATCHES[0]
        n_calm = agg["runs_by_sub"][calm]
        if n_calm >= 20 and agg["nontrivial_by_sub"][calm] * 2 < n_calm and not getattr(prop, "NO_VACUITY", False):
            print(f"HARNESS-ERROR property={prop_id} vacuous: only {agg['nontrivial_by_sub'][calm]} of "
                  f"{n_calm} {calm} runs reached a non-trivial comparison", flush=True)
            code = EXIT_HARNESS
        if agg["evaluations"] == 0:
            print(f"HARNESS-ERROR property={prop_id} no run completed", flush=True)
            code = EXIT_HARNESS
    leg = None
    if code == EXIT_OK and not os.environ.get("HEXSIM_LEG") and os.environ.get("HEXSIM_NO_HASH_LEG") != "1":
        code, vio_info, leg = _hash_seed_leg(prop_id, tier, base_seed, budget_s, jobs)
    agg["hash_leg"] = leg
    for k, n in sorted(agg["known_hit"].items()):
        entry = next(e for e in known if e["signature"] == k)
        print(f"KNOWN-FINDING: property={prop_id} {entry['what']} [{k}] hit in {n} run(s)", flush=True)
    wall = time.time() - t_start
    if os.environ.get("HEXSIM_LEG"):
        # a leg of another check run: no evidence file of its own, a machine-readable summary instead
        print("LEG-SUMMARY " + json.dumps({"runs": agg["evaluations"], "exit": code,
                                           "known_hits": sum(agg["known_hit"].values())}), flush=True)
        return code
    write_evidence(prop, tier, base_seed, agg, wall, code, vio_info, jobs)
    if not quiet:
        rph = int(agg["evaluations"] / max(wall, 1e-9) * 3600)
        print(f"{prop_id} {tier}: runs={agg['evaluations']} nontrivial_distinct={len(agg['digests'])} "
              f"discards={agg['status']['discard']} known_hits={sum(agg['known_hit'].values())} "
              f"wall={wall:.1f}s runs/h={rph} exit={code}", flush=True)
    return code


def _hash_seed_leg(prop_id, tier, base_seed, budget_s, jobs):
    """String hashing (iteration order of sets of names) is a source of nondeterminism the process environment
    decides.  The main batch runs under PYTHONHASHSEED=0; this leg re-executes the first runs of the same
    batch (same traces) in a fresh interpreter under another hash seed derived from VERIF_SEED.  On a library
    that does not depend on hash order the leg sees exactly what the main batch saw."""
    from .util import derive_seed

    h = 1 + derive_seed(base_seed, "hashseed") % 4_000_000_000
    # ... and whose interpreter starts, and imports the library, under another time zone (whatever the library
    # evaluates at import time has then seen that zone; the run itself proceeds under UTC as always)
    zones = ("Asia/Kolkata", "America/New_York", "Australia/Lord_Howe", "Asia/Kathmandu", "Pacific/Chatham")
    import_tz = zones[derive_seed(base_seed, "import-tz") % len(zones)]
    env = dict(os.environ)
    env.update({"HEXSIM_HASHSEED": str(h), "HEXSIM_LEG": "hashseed", "HEXSIM_IMPORT_TZ": import_tz,
                "VERIF_BUDGET_S": str(max(4.0, budget_s * 0.15)), "VERIF_SEED": str(base_seed),
                "VERIF_JOBS": str(jobs)})
    env.pop("PYTHONHASHSEED", None)
    try:
        p = subprocess.run([os.path.join(VERIF, "check"), prop_id, tier], capture_output=True, text=True, env=env,
                           timeout=budget_s * 0.15 + 900)
    except subprocess.TimeoutExpired:
        print(f"HARNESS-ERROR property={prop_id} hash-seed leg timed out", flush=True)
        return EXIT_HARNESS, None, {"hashseed": h, "runs": 0, "exit": EXIT_HARNESS}
    out = p.stdout + p.stderr
    summary = {}
    for ln in out.splitlines():
        if ln.startswith("LEG-SUMMARY "):
            summary = json.loads(ln[len("LEG-SUMMARY "):])
    leg = {"hashseed": h, "import_tz": import_tz, "runs": summary.get("runs", 0), "exit": p.returncode}
    if p.returncode == EXIT_VIOLATION:
        vio = None
        for ln in out.splitlines():
            if ln.startswith(("violation:", "VIOLATION ")):
                print(ln + ("" if ln.startswith("VIOLATION") else f" [under PYTHONHASHSEED={h}, library imported under TZ={import_tz}]"), flush=True)
            if ln.startswith("VIOLATION ") and "replay=" in ln:
                vio = {"signature": "see replay", "replay": ln.split("replay=", 1)[1].strip(), "hashseed": h}
        return EXIT_VIOLATION, vio, leg
    if p.returncode != EXIT_OK:
        print(f"HARNESS-ERROR property={prop_id} hash-seed leg failed (rc={p.returncode})\n{out[-1500:]}", flush=True)
        return EXIT_HARNESS, None, leg
    return EXIT_OK, None, leg


def _replay_reproducers(prop, known, agg, pool):
    """Committed reproducers, each replayed on its own in a child of a pristine pool worker (the parent never
    executes library code before the batch, so the workers it forks carry no library state)."""
    entries = [e for e in known if e["property"] == prop.ID and e.get("replay")]
    for entry in entries:
        path = os.path.join(VERIF, entry["replay"])
        if not os.path.exists(path):
            print(f"HARNESS-ERROR property={prop.ID} reproducer missing: {path}", flush=True)
            return EXIT_HARNESS, None
    futs = [(e, pool.submit(_replay_task, prop.ID, [os.path.join(VERIF, e["replay"])])) for e in entries]
    for entry, fut in futs:
        try:
            (path, status, signature, error), = fut.result(timeout=900)
        except Exception as exc:  # noqa: BLE001
            print(f"HARNESS-ERROR property={prop.ID} reproducer {entry['replay']} could not be replayed: {exc!r}", flush=True)
            return EXIT_HARNESS, None
        if status == "error":
            print(f"HARNESS-ERROR property={prop.ID} reproducer {path} failed to execute\n{error}", flush=True)
            return EXIT_HARNESS, None
        agg["stats"]["reproducers_replayed"] += 1
        if status != "violation":
            continue
        if entry.get("status") == "known" and signature == entry["signature"]:
            agg["known_hit"][entry["signature"]] += 1
            continue
        if known_match(known, prop.ID, signature) is not None:
            agg["known_hit"][signature] += 1
            continue
        print(f"violation: {signature} reproduced by committed reproducer {entry['replay']} "
              f"(entry status: {entry.get('status')})", flush=True)
        print(f"VIOLATION property={prop.ID} replay={path}", flush=True)
        return EXIT_VIOLATION, {"signature": signature, "replay": path, "index": -1}
    return None


def _merge(agg, rec, prop, base_seed, known):
    if rec.get("status") == "harness":
        return "harness"
    if rec.get("redo_ok") is False:
        # The same trace gave another digest when executed a second time in the same process.  Either
        # the harness is not deterministic, or the LIBRARY keeps hidden process-global state.  The run
        # goes on: a violation that replays in a fresh interpreter is still a violation; without one
        # the check ends as a harness error (never as a pass).
        agg["redo_mismatch"].append(rec["i"])
    if "redo_ok" in rec:
        agg["redo"] += 1
    agg["evaluations"] += 1
    agg["status"][rec["status"]] += 1
    agg["subs"][rec["sub"]] += 1
    agg["runs_by_sub"][rec["sub"]] += 1
    agg["dt"] += rec["dt"]
    agg["mtime"] += rec["mtime"]
    for k, v in rec["stats"].items():
        agg["stats"][k] += v
    for k, v in rec["fired"].items():
        agg["fired"][k] += v
    agg["shapes"].add(rec["shape"])
    agg["states"].update(rec["states"])
    if rec["nontrivial"]:
        agg["nontrivial_runs"] += 1
        agg["nontrivial_by_sub"][rec["sub"]] += 1
        agg["digests"].add(rec["digest"] + rec["tdigest"])
        key = rec["sub"]
        if key not in agg["samples"]:
            agg["samples"][key] = rec["i"]
        best = agg["samples"].get("shortest")
        if best is None or rec["n_ops"] < best[0]:
            agg["samples"]["shortest"] = (rec["n_ops"], rec["i"])
    if rec["status"] == "violation":
        k = known_match(known, prop.ID, rec["sig"])
        if k is not None:
            agg["known_hit"][k["signature"]] += 1
            return "known"
        return "violation"
    return "ok"


def _handle_violation(prop, base_seed, rec, known, agg):
    """Shrink, re-match against known findings, write replay, confirm in a fresh interpreter."""
    trace = plan_run(base_seed, prop, rec["i"])
    v0 = _in_child(prop.execute, trace)     # in a child: this process stays free of library state
    minimised = False
    if v0.status == "violation" and v0.signature == rec["sig"]:
        try:
            small, v = shrinker.shrink(prop, trace, v0.signature,
                                       time_limit=float(os.environ.get("VERIF_SHRINK_S", "60")))
            minimised = True
        except RuntimeError:
            small, v = trace, v0
    else:
        # Re-executing the trace in this process gave another result than the worker got: the library
        # (or the harness) keeps state across executions.  Minimisation is pointless then; the unshrunk
        # trace goes to a fresh interpreter, whose verdict decides.
        small, v = trace, v0
    path = write_replay(prop.ID, small, v if v.status == "violation" else Verdict(
        status="violation", signature=rec["sig"], op_index=rec.get("op_index", -1)))
    rc, out = replay_fresh(path)
    if rc == EXIT_VIOLATION and minimised and v.signature in out:
        print(f"violation: {v.signature} at op {v.op_index} of {len(small['ops'])} "
              f"(run index {rec['i']}, seed {trace['seed']}); detail={json.dumps(jsonable(v.detail))[:600]}",
              flush=True)
        print(f"VIOLATION property={prop.ID} replay={path}", flush=True)
        return EXIT_VIOLATION, {"signature": v.signature, "replay": path, "index": rec["i"]}
    if rc == EXIT_VIOLATION and not minimised:
        sig = next((ln.split(" ", 1)[1] for ln in out.splitlines()
                    if ln.startswith(("REPRODUCED ", "DIFFERENT "))), rec["sig"])
        if known_match(known, prop.ID, sig) is not None:
            agg["known_hit"][sig] += 1
            return EXIT_OK, None
        print(f"violation: {sig} (run index {rec['i']}, seed {trace['seed']}); NOT minimised: executing the same "
              f"trace twice in one process gives different results (hidden process-global state), the replay "
              f"file holds the full trace and reproduces in a fresh interpreter", flush=True)
        print(f"VIOLATION property={prop.ID} replay={path}", flush=True)
        return EXIT_VIOLATION, {"signature": sig, "replay": path, "index": rec["i"]}
    seq = _sequence_violation(prop, base_seed, rec, known, agg)
    if seq is not None:
        return seq
    print(f"HARNESS-ERROR property={prop.ID} violation {rec['sig']} did not replay in a fresh "
          f"interpreter (rc={rc}), neither alone nor after the earlier runs of its chunk; replay={path}\n{out[-2000:]}",
          flush=True)
    return EXIT_HARNESS, None


def _sequence_violation(prop, base_seed, rec, known, agg):
    """The violation needs the HISTORY OF THE PROCESS: the trace alone passes in a fresh interpreter, but it
    was observed after the earlier runs of its chunk (which started from a pristine process).  That sequence
    of traces is the replay file; the earlier traces are dropped one by one while the violation persists."""
    start = rec.get("chunk_start")
    if start is None or start >= rec["i"]:
        return None
    seq = [plan_run(base_seed, prop, i) for i in range(start, rec["i"] + 1)]

    def write(traces):
        d = os.path.dirname(write_replay(prop.ID, dict(traces[-1]), Verdict(
            status="violation", signature=rec["sig"], op_index=rec.get("op_index", -1))))
        path = os.path.join(d, f"{traces[-1].get('seed', 0)}-sequence.json")
        with open(path, "w") as fh:
            json.dump({"format": 1, "property": prop.ID, "seed": traces[-1].get("seed", 0), "sequence": traces,
                       "hashseed": os.environ.get("PYTHONHASHSEED", "0"),
                       "import_tz": os.environ.get("HEXSIM_IMPORT_TZ"),
                       "verdict": {"status": "violation", "signature": rec["sig"], "op_index": rec.get("op_index", -1)}},
                      fh, indent=1)
        return path

    def reproduces(traces):
        rc, out = replay_fresh(write(traces))
        return rc == EXIT_VIOLATION and rec["sig"] in out

    if not reproduces(seq):
        return None
    if reproduces(seq[-1:]):
        seq = seq[-1:]
    deadline = time.time() + float(os.environ.get("VERIF_SHRINK_S", "60"))
    k = 0
    while k < len(seq) - 1 and time.time() < deadline:
        cand = seq[:k] + seq[k + 1:]
        if reproduces(cand):
            seq = cand
        else:
            k += 1
    path = write(seq)
    if known_match(known, prop.ID, rec["sig"]) is not None:
        agg["known_hit"][rec["sig"]] += 1
        return EXIT_OK, None
    if len(seq) == 1:
        print(f"violation: {rec['sig']} (run index {rec['i']}, seed {seq[-1]['seed']}); NOT minimised (the minimised "
              f"trace did not reproduce in a fresh process; the full trace does)", flush=True)
    else:
        print(f"violation: {rec['sig']} (run index {rec['i']}, seed {seq[-1]['seed']}); the trace alone passes in a "
              f"fresh process: the violation needs {len(seq) - 1} earlier run(s) IN THE SAME PROCESS (the library keeps "
              f"state between objects); the replay file holds that sequence of traces", flush=True)
    print(f"VIOLATION property={prop.ID} replay={path}", flush=True)
    return EXIT_VIOLATION, {"signature": rec["sig"], "replay": path, "index": rec["i"], "sequence_length": len(seq)}


# ----------------------------------------------------------------------------- evidence
def evidence_dir():
    """Evidence is only written under /verif/evidence when the check ran against /repo itself; runs
    against scratch trees (mutants, seeded changes, older commits) write to a scratch directory."""
    repo = os.path.realpath(os.environ.get("HEXSIM_REPO", "/repo"))
    if repo == os.path.realpath("/repo"):
        return os.path.join(VERIF, "evidence")
    return os.path.join("/tmp", "hexsim-scratch-evidence")


def write_evidence(prop, tier, base_seed, agg, wall, code, vio_info, jobs):
    os.makedirs(evidence_dir(), exist_ok=True)
    samples = []
    for key, val in agg["samples"].items():
        idx = val[1] if isinstance(val, tuple) else val
        tr = plan_run(base_seed, prop, idx)
        samples.append({"kind": key, "run_index": idx, "seed": tr["seed"], "subbatch": tr["subbatch"],
                        "config": tr["config"], "n_ops": len(tr["ops"]),
                        "ops_head": _ops_head(tr["ops"])})
    if not samples and agg["evaluations"]:
        tr = plan_run(base_seed, prop, 0)
        samples.append({"kind": "first", "run_index": 0, "seed": tr["seed"], "config": tr["config"],
                        "ops_head": _ops_head(tr["ops"])})
    stats = agg["stats"]
    cov = {
        "evaluations": agg["evaluations"],
        "distinct_nontrivial": len(agg["digests"]),
        "rule": prop.RULE,
        "samples": samples,
        "runs_per_hour": int(agg["evaluations"] / max(wall, 1e-9) * 3600),
        "seeds": {"base_seed": base_seed, "run_index_range": [0, agg["evaluations"]],
                  "derivation": "sha256(VERIF_SEED, property, subbatch, index)"},
        "subbatches": dict(agg["subs"]),
        "simulated_market_time_s": agg["mtime"],
        "faults_fired": dict(sorted(agg["fired"].items())),
        "reach_probes": {k[6:]: v for k, v in sorted(stats.items()) if k.startswith("reach:")},
        "guards": {k[6:]: v for k, v in sorted(stats.items()) if k.startswith("guard")},
        "discards": {k[8:]: v for k, v in sorted(stats.items()) if k.startswith("discard:")},
        "other_counters": {k: v for k, v in sorted(stats.items())
                           if not k.startswith(("reach:", "guard", "discard:"))},
        "distinct_schedules": len(agg["shapes"]),
        "distinct_abstract_states": len(agg["states"]),
        "determinism_resamples": agg["redo"],
        "known_findings_hit": dict(agg["known_hit"]),
        "hash_seed_leg": agg.get("hash_leg") or "not run (violation or harness error in the main batch, or a leg itself)",
        "components": {
            "real": "all of hexital/* from the repo working tree (no stubs)",
            "simulated": ["exchange (price process, market clock)", "feed (fault injector, batching)",
                          "operator", "observer", "TZ environment via tzset",
                          "wall clock (hexsim/simclock.py: datetime.now / time.time as seen from hexital modules; "
                          "library reads of it: %d)" % stats.get("reach:simulated_clock_reads_by_library", 0)],
            "reference_models": getattr(prop, "REFERENCE_MODELS", []),
        },
        "workers": jobs,
        "exit_code": code,
    }
    if vio_info:
        cov["violation"] = vio_info
    ev = {
        "property_id": prop.ID, "tier": tier, "seed": base_seed, "level": prop.LEVEL,
        "coverage": cov,
        "assumptions": getattr(prop, "ASSUMPTIONS", []) + [
            "seeded search samples schedules/faults; a clean batch is evidence, not proof",
            "PYTHONHASHSEED=0 and TZ=UTC pinned by the launcher (C18 moves TZ itself); the first runs of the batch "
            "are executed a second time in a fresh interpreter under another hash seed (coverage.hash_seed_leg)",
        ],
        "wall_s": round(wall, 3),
        "violations": 1 if code == EXIT_VIOLATION else 0,
    }
    path = os.path.join(evidence_dir(), f"{prop.ID}.json")
    tmp = path + ".tmp"
    with open(tmp, "w") as fh:
        json.dump(jsonable(ev), fh, indent=1)
    os.replace(tmp, path)


def _ops_head(ops, n=6):
    out = []
    for op in ops[:n]:
        o = {k: v for k, v in op.items() if k not in ("candles", "preload")}
        for key in ("candles", "preload"):
            if key in op:
                rows = op[key] or []
                o[key] = rows[:3]
                if len(rows) > 3:
                    o[key + "_more"] = len(rows) - 3
        out.append(o)
    return out
