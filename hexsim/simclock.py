"""The simulated wall clock: the seam between the library and "what time is it now".

The library at the pinned commit never asks for the current time - every decision is taken from the
candles' own timestamps.  A change that does consult the clock (datetime.now(), time.time()) would make
results depend on WHEN and WHERE the process runs, which no trace could replay.  So the simulator owns
the clock: every hexital module's `datetime` name is rebound to a class whose constructors return
ordinary datetime objects but whose now() / utcnow() / today() read the simulated instant, and a
module-level `time` / `datetime` module reference is rebound to a proxy doing the same.  The instant
is set by the executor from the trace (e.g. "live": just after the newest delivered candle, read as
UTC), so one trace is still one exactly repeatable execution, under every process time zone.

now(tz=None) converts the simulated instant with the process's CURRENT zone rules (TZ + tzset), as the
real clock would.  Reads are counted (`reads`), and reported as reach.
"""
from __future__ import annotations

import datetime as _dt
import sys
import time as _time

REAL = _dt.datetime
DEFAULT_NOW = 1_707_000_000.0     # 2024-02-03T22:40:00Z: after every 2023 stream the world generates
NOW = DEFAULT_NOW
reads = 0


def set_now(epoch_seconds: float):
    global NOW
    NOW = float(epoch_seconds)


class _Meta(type):
    def __instancecheck__(cls, obj):
        return isinstance(obj, REAL)

    def __subclasscheck__(cls, sub):
        return issubclass(sub, REAL)


class SimDateTime(REAL, metaclass=_Meta):
    """`datetime` as the library sees it: ordinary datetime objects, simulated current time."""

    def __new__(cls, *args, **kwargs):
        return REAL(*args, **kwargs)

    @classmethod
    def now(cls, tz=None):
        global reads
        reads += 1
        return REAL.fromtimestamp(NOW, tz)

    @classmethod
    def utcnow(cls):
        global reads
        reads += 1
        return REAL.fromtimestamp(NOW, _dt.timezone.utc).replace(tzinfo=None)

    @classmethod
    def today(cls):
        return cls.now()

    fromtimestamp = staticmethod(REAL.fromtimestamp)
    utcfromtimestamp = staticmethod(REAL.utcfromtimestamp)
    fromisoformat = staticmethod(REAL.fromisoformat)
    strptime = staticmethod(REAL.strptime)
    combine = staticmethod(REAL.combine)
    fromordinal = staticmethod(REAL.fromordinal)
    fromisocalendar = staticmethod(REAL.fromisocalendar)


class _Proxy:
    """Stand-in for a module object bound in a hexital module (`import time`, `import datetime`)."""

    def __init__(self, real, overrides):
        self.__dict__["_real"] = real
        self.__dict__["_over"] = overrides

    def __getattr__(self, name):
        over = self.__dict__["_over"]
        if name in over:
            return over[name]
        return getattr(self.__dict__["_real"], name)


def _sim_time():
    global reads
    reads += 1
    return NOW


_TIME_PROXY = _Proxy(_time, {
    "time": _sim_time, "time_ns": lambda: int(_sim_time() * 1e9),
    "monotonic": _sim_time, "monotonic_ns": lambda: int(_sim_time() * 1e9),
    "perf_counter": _sim_time, "perf_counter_ns": lambda: int(_sim_time() * 1e9),
    "localtime": lambda secs=None: _time.localtime(_sim_time() if secs is None else secs),
    "gmtime": lambda secs=None: _time.gmtime(_sim_time() if secs is None else secs),
})
_DT_PROXY = _Proxy(_dt, {"datetime": SimDateTime})

_patched = set()


def install():
    """Rebind the clock names of every loaded hexital module (idempotent; modules loaded later are
    picked up by the next call).  Returns the number of names rebound so far."""
    for name, mod in list(sys.modules.items()):
        if mod is None or not (name == "hexital" or name.startswith("hexital.")):
            continue
        for attr, val in list(vars(mod).items()):
            key = (name, attr)
            if key in _patched:
                continue
            if val is REAL:
                setattr(mod, attr, SimDateTime)
            elif val is _time:
                setattr(mod, attr, _TIME_PROXY)
            elif val is _dt:
                setattr(mod, attr, _DT_PROXY)
            else:
                continue
            _patched.add(key)
    return len(_patched)


def seam_report():
    return {"names_rebound": sorted(f"{m}.{a}" for m, a in _patched), "clock_reads_by_library": reads}
