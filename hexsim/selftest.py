"""Self-tests of the machinery (not registered as property checks; results are committed under
/verif/selftest/):

 determinism  -- one seed is one execution: every run's (trace digest, observable-state digest,
                 verdict) must be identical (a) twice in the same process, (b) in fresh interpreters
                 under other PYTHONHASHSEED values, (c) with 1, 4 and 16 workers.
 sensitivity  -- every check can fire: each mutant under /verif/mutants is applied to a scratch copy
                 of /repo (outside /repo and /verif) and the tagged check must report a VIOLATION that
                 replays against that copy.
"""
from __future__ import annotations

import json
import os
import subprocess
import sys
import time
from concurrent.futures import ProcessPoolExecutor
from multiprocessing import get_context

from . import runner

VERIF = runner.VERIF


def _digests(pid, n, jobs, base=0):
    step = 10
    out = []
    if jobs <= 1:
        for a in range(0, n, step):
            out.extend(runner._work(pid, base, a, min(a + step, n), 0))
    else:
        with ProcessPoolExecutor(max_workers=jobs, mp_context=get_context("fork"),
                                 initializer=runner._worker_init) as pool:
            futs = [pool.submit(runner._work, pid, base, a, min(a + step, n), 0) for a in range(0, n, step)]
            for f in futs:
                out.extend(f.result())
    lines = []
    for rec in out:
        if rec.get("status") == "harness":
            lines.append(f"{rec['i']} HARNESS {rec.get('error', '')[-200:]}")
        else:
            lines.append(f"{rec['i']} {rec['status']} {rec['sig']} {rec['digest']} {rec['tdigest']} {rec['nontrivial']}")
    return lines


def print_digests(argv):
    pid, n = argv[0].upper(), int(argv[1])
    jobs = int(argv[2]) if len(argv) > 2 else 1
    for line in _digests(pid, n, jobs):
        print(line)
    return 0


def _fresh(pid, n, jobs, hashseed):
    env = dict(os.environ, HEXSIM_HASHSEED=str(hashseed))
    p = subprocess.run([os.path.join(VERIF, "check"), "selftest-digests", pid, str(n), str(jobs)],
                       capture_output=True, text=True, env=env, timeout=3600)
    if p.returncode != 0:
        raise RuntimeError(p.stdout[-1000:] + p.stderr[-1000:])
    return [ln for ln in p.stdout.splitlines() if ln and ln[0].isdigit()]


def determinism(argv):
    n_default = int(argv[0]) if argv else 200
    props = [a.upper() for a in argv[1:]] or runner.CLAIMED
    report = {"runs_per_property": {}, "comparisons": [], "ok": True, "at": time.strftime("%Y-%m-%dT%H:%M:%SZ", time.gmtime())}
    for pid in props:
        n = n_default if pid != "C07" else max(8, n_default // 12)
        t0 = time.time()
        a = _digests(pid, n, 1)
        b = _digests(pid, n, 1)
        variants = {
            "same-process-twice": b,
            "fresh-interpreter-hashseed-1-workers-4": _fresh(pid, n, 4, 1),
            "fresh-interpreter-hashseed-12345-workers-16": _fresh(pid, n, 16, 12345),
        }
        for name, other in variants.items():
            same = other == a
            bad = None
            if not same:
                report["ok"] = False
                bad = next(((x, y) for x, y in zip(a, other) if x != y), (len(a), len(other)))
            report["comparisons"].append({"property": pid, "variant": name, "identical": same, "first_difference": bad})
            print(f"{pid} {name}: {'identical' if same else 'DIFFERENT ' + str(bad)}", flush=True)
        report["runs_per_property"][pid] = n
        print(f"{pid}: {n} runs x 4 executions in {time.time() - t0:.1f}s", flush=True)
    os.makedirs(os.path.join(VERIF, "selftest"), exist_ok=True)
    with open(os.path.join(VERIF, "selftest", "determinism.json"), "w") as fh:
        json.dump(report, fh, indent=1)
    print("determinism:", "OK" if report["ok"] else "FAILED")
    return 0 if report["ok"] else 2


def sensitivity(argv):
    """./check selftest-sensitivity [mutant-name ...]: apply each mutant (or seeded change) to a scratch
    worktree and run the tagged check(s) with the quick budget."""
    import glob
    import tempfile

    only = set(argv)
    results = []
    catalog = []
    for meta_path in sorted([p for p in glob.glob(os.path.join(VERIF, "mutants", "*.json")) if not p.endswith("equivalent.json")]
                            + glob.glob(os.path.join(VERIF, "seeded", "*", "meta.json"))):
        with open(meta_path) as fh:
            meta = json.load(fh)
        d = os.path.dirname(meta_path)
        name = meta.get("name") or os.path.basename(d)
        patch = os.path.join(d, meta.get("patch", "patch.diff")) if "seeded" in meta_path else os.path.join(d, meta["patch"])
        if meta.get("obsolete"):
            continue
        catalog.append((name, patch, meta))
    budget = os.environ.get("VERIF_BUDGET_S", "30")
    for name, patch, meta in catalog:
        if only and name not in only:
            continue
        props = meta.get("expect_caught_by") or [meta["property"]]
        wt = tempfile.mkdtemp(prefix="hexmut.", dir="/tmp")
        os.rmdir(wt)
        subprocess.run(["git", "-C", "/repo", "worktree", "add", "-q", "--detach", wt, "HEAD"], check=True)
        try:
            ap = subprocess.run(["git", "-C", wt, "apply", patch], capture_output=True, text=True)
            if ap.returncode != 0:
                results.append({"mutant": name, "error": "patch does not apply: " + ap.stderr[-300:]})
                print(f"{name}: PATCH DOES NOT APPLY", flush=True)
                continue
            for pid in props:
                env = dict(os.environ, HEXSIM_REPO=wt, VERIF_BUDGET_S=budget)
                t0 = time.time()
                p = subprocess.run([os.path.join(VERIF, "check"), pid, "quick"], capture_output=True, text=True, env=env)
                sig = next((ln for ln in p.stdout.splitlines() if ln.startswith("violation:")), "")
                results.append({"mutant": name, "property": pid, "exit": p.returncode, "caught": p.returncode == 1,
                                "expected_missed": meta.get("expected_missed"),
                                "signature": sig[:300], "wall_s": round(time.time() - t0, 1)})
                print(f"{name} -> {pid}: {'CAUGHT' if p.returncode == 1 else 'exit ' + str(p.returncode)} {sig[:160]}", flush=True)
        finally:
            subprocess.run(["git", "-C", "/repo", "worktree", "remove", "--force", wt])
    os.makedirs(os.path.join(VERIF, "selftest"), exist_ok=True)
    out = os.path.join(VERIF, "selftest", "sensitivity.json")
    prev = []
    if only and os.path.exists(out):
        with open(out) as fh:
            prev = [r for r in json.load(fh).get("results", []) if r.get("mutant") not in only]
    with open(out, "w") as fh:
        json.dump({"at": time.strftime("%Y-%m-%dT%H:%M:%SZ", time.gmtime()), "results": prev + results}, fh, indent=1)
    missed = [r for r in results if not r.get("caught") and not r.get("expected_missed")]
    print(f"sensitivity: {len(results) - len(missed)} caught, {len(missed)} missed")
    return 0 if not missed else 1
