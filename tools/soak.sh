#!/bin/bash
# Soak: every check under many base seeds; anything but exit 0 is logged with its output.
# usage: tools/soak.sh <first seed> <last seed> [budget_s]
cd "$(dirname "$0")/.."
first=${1:-1}; last=${2:-20}; budget=${3:-45}
mkdir -p soak
for seed in $(seq $first $last); do
  for c in $(jq -r '.checks[].property_id' MANIFEST.json); do
    out=$(VERIF_SEED=$seed VERIF_BUDGET_S=$budget VERIF_JOBS=${VERIF_JOBS:-8} ./check $c quick 2>&1); rc=$?
    line=$(echo "$out" | tail -1)
    echo "seed=$seed $line"
    if [ $rc -ne 0 ]; then
      echo "$out" > soak/fail_${c}_seed${seed}.log
      cp -r replays soak/replays_${c}_seed${seed} 2>/dev/null
      echo "!!! seed=$seed $c rc=$rc"
    fi
  done
done
