#!/bin/bash
# Every registered quick check under several base seeds (on the unchanged tree each must exit 0).
# usage: tools/multi_seed_quick.sh <seed> [seed...]
cd "$(dirname "$0")/.."
bad=0
for seed in "$@"; do
  for c in $(jq -r '.checks[].property_id' MANIFEST.json); do
    out=$(VERIF_SEED=$seed timeout 1500 ./check $c quick 2>&1); rc=$?
    echo "$out" | grep -E "^(VIOLATION|HARNESS-ERROR|violation:)" | cut -c1-300
    echo "seed=$seed rc=$rc $(echo "$out" | tail -1)"
    [ $rc -ne 0 ] && bad=1
  done
done
echo "MULTI-SEED-DONE bad=$bad"
exit $bad
