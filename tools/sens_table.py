#!/usr/bin/env python3
"""Markdown table 'which check catches which change' from selftest/sensitivity.json + metadata."""
import glob, json, os
V = os.path.dirname(os.path.dirname(os.path.abspath(__file__)))
res = json.load(open(os.path.join(V, "selftest", "sensitivity.json")))
meta = {}
for p in glob.glob(os.path.join(V, "mutants", "*.json")):
    if p.endswith("equivalent.json"):
        continue
    m = json.load(open(p)); meta[m["name"]] = ("mutant", m["what"])
for p in glob.glob(os.path.join(V, "seeded", "*", "meta.json")):
    m = json.load(open(p)); meta[m["name"]] = ("seeded (sub-agent)", m["needs_to_manifest"])
print(f"(from selftest/sensitivity.json, {res['at']})\n")
print("| change | origin | check | result | violation signature |")
print("|---|---|---|---|---|")
for r in sorted(res["results"], key=lambda r: (r.get("property", ""), r["mutant"])):
    kind, what = meta.get(r["mutant"], ("?", ""))
    sig = r.get("signature", "")
    sig = sig.split(" at op")[0].replace("violation: ", "").split(" reproduced by")[0].split(" (run index")[0]
    out = "caught" if r.get("caught") else ("not seen (expected: " + r["expected_missed"] + ")" if r.get("expected_missed") else f"MISSED (exit {r.get('exit')})")
    print(f"| `{r['mutant']}` — {what[:140]} | {kind} | {r.get('property','')} | {out} | `{sig[:90]}` |")
