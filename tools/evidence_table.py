#!/usr/bin/env python3
"""Markdown table of what the last run of every check covered (from evidence/*.json)."""
import glob, json, os
V = os.path.dirname(os.path.dirname(os.path.abspath(__file__)))
print("| check | tier | runs | distinct non-trivial | runs/h | distinct schedules | fault kinds fired | second leg (hash seed / import zone: runs) | wall s |")
print("|---|---|---|---|---|---|---|---|---|")
for f in sorted(glob.glob(os.path.join(V, "evidence", "*.json"))):
    e = json.load(open(f)); c = e["coverage"]
    leg = c.get("hash_seed_leg")
    legs = f"{leg.get('hashseed')} / {leg.get('import_tz')}: {leg.get('runs')}" if isinstance(leg, dict) else "-"
    print(f"| {e['property_id']} | {e['tier']} | {c['evaluations']} | {c['distinct_nontrivial']} | {c['runs_per_hour']} | "
          f"{c['distinct_schedules']} | {len(c['faults_fired'])} | {legs} | {e['wall_s']} |")
