#!/bin/bash
# usage: tools/at_commit.sh <repo-commit> [patch.diff|-] <check args...>
# Runs ./check against a scratch worktree of /repo at <commit> (optionally with a patch applied),
# outside /repo and /verif, and removes the worktree afterwards.
set -u
commit="$1"; patch="$2"; shift 2
wt="$(mktemp -d /tmp/hexwt.XXXXXX)"
git -C /repo worktree add -q --detach "$wt" "$commit" || exit 2
if [ "$patch" != "-" ]; then git -C "$wt" apply "$patch" || { git -C /repo worktree remove --force "$wt"; exit 2; }; fi
HEXSIM_REPO="$wt" /verif/check "$@"; rc=$?
git -C /repo worktree remove --force "$wt"
exit $rc
