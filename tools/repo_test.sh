#!/bin/bash
# runs the pinned test-suite of /repo; exit status is pytest's
cd /repo && /venv/bin/python -m pytest -q -p no:cacheprovider --timeout=900 2>&1 | tail -3; exit ${PIPESTATUS[0]}
