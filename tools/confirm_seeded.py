#!/usr/bin/env python3
"""Confirms a sub-agent's seeded change independently in a fresh scratch worktree of /repo HEAD:
patch applies, the 325-test suite passes with it, the demo exits 1 with it and 0 without it.
On success copies patch.diff / demo.py / notes.md to /verif/seeded/<name>/ and writes meta.json.
usage: tools/confirm_seeded.py <outdir of the agent> <property> <name> "<needs>" """
import json, os, shutil, subprocess, sys, tempfile
src, prop, name, needs = sys.argv[1:5]
def run(cmd):
    return subprocess.run(cmd, shell=True, capture_output=True, text=True)
wt = tempfile.mkdtemp(prefix="hexseed.", dir="/tmp"); os.rmdir(wt)
assert run(f"git -C /repo worktree add -q --detach {wt} HEAD").returncode == 0
ran = []
try:
    demo = os.path.join(src, "demo.py"); patch = os.path.join(src, "patch.diff")
    r0 = run(f"cd {wt} && PYTHONPATH={wt} /venv/bin/python {demo}"); ran.append(("demo without change", r0.returncode))
    a = run(f"git -C {wt} apply {patch}"); ran.append(("git apply", a.returncode))
    if a.returncode != 0:
        print("PATCH DOES NOT APPLY", a.stderr); sys.exit(1)
    t = run(f"cd {wt} && PYTHONPATH={wt} /venv/bin/python -m pytest -q -p no:cacheprovider --timeout=900 2>&1 | tail -1"); ran.append(("test-suite with change", t.stdout.strip()))
    r1 = run(f"cd {wt} && PYTHONPATH={wt} /venv/bin/python {demo}"); ran.append(("demo with change", r1.returncode))
    ok = r0.returncode == 0 and r1.returncode == 1 and " passed" in t.stdout and "failed" not in t.stdout
    print(name, "without:", r0.returncode, "with:", r1.returncode, "| suite:", t.stdout.strip(), "| CONFIRMED" if ok else "| NOT CONFIRMED")
    if not ok:
        print(r1.stdout[-800:], r1.stderr[-800:]); sys.exit(1)
    dst = os.path.join("/verif/seeded", name); os.makedirs(dst, exist_ok=True)
    for f in ("patch.diff", "demo.py", "notes.md"):
        if os.path.exists(os.path.join(src, f)):
            shutil.copy(os.path.join(src, f), os.path.join(dst, f))
    head = run("git -C /repo rev-parse --short HEAD").stdout.strip()
    meta = {"name": name, "property": prop, "patch": "patch.diff", "demo": "demo.py",
            "origin": "independent sub-agent given only the property text and a scratch worktree",
            "needs_to_manifest": needs, "repo_commit": head,
            "confirmed": {k: v for k, v in ran}, "demo_output_with_change": (r1.stdout + r1.stderr)[-600:],
            "expect_caught_by": [prop]}
    json.dump(meta, open(os.path.join(dst, "meta.json"), "w"), indent=1)
finally:
    run(f"git -C /repo worktree remove --force {wt}")
