#!/bin/bash
# False-alarm hunt on the unchanged tree: signature histograms (no stop, no shrink) over many runs and
# several base seeds per property.  Anything but "ok"/"discard" lines needs attention.
# usage: tools/hunt.sh <runs per seed> <seed> [seed...]
cd "$(dirname "$0")/.."
n=$1; shift
for seed in "$@"; do
  for c in $(jq -r '.checks[].property_id' MANIFEST.json); do
    m=$n; [ "$c" = "C07" ] && m=$((n/60))
    echo "== seed=$seed $c n=$m"
    VERIF_SEED=$seed ./check survey $c $m 2>&1 | grep -v -E "^ +[0-9]+ +first@[0-9]+ +(ok|discard)$"
  done
done
echo HUNT-DONE
