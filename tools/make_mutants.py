#!/usr/bin/env python3
"""Builds the mutant catalogue /verif/mutants/<name>.diff + <name>.json from textual edits applied
to a scratch worktree of /repo (outside /repo and /verif).  Each mutant is kept only if the
library's own test-suite still passes with it (a mutant the suite already kills says nothing about
what the simulation adds).  Usage: tools/make_mutants.py [name ...]"""
import json
import os
import subprocess
import sys
import tempfile

VERIF = os.path.dirname(os.path.dirname(os.path.abspath(__file__)))
OUT = os.path.join(VERIF, "mutants")

# (name, property, [also caught by], file, old, new, what)
M = [
    # ---------------- C01 / C02
    ("c01_merge_keeps_readings", "C01", ["C02"], "hexital/core/candle.py",
     "        self.clean_values = {}\n        self.reset_candle()\n\n", "        self.clean_values = {}\n        self._tag = None\n\n",
     "Candle.merge no longer resets the readings of the merged bucket: the open bucket keeps a stale reading"),
    ("c01_ema_caches_prev_on_object", "C01", ["C02", "C14"], "hexital/indicators/ema.py",
     "        if self.prev_exists():\n            alpha = float(self.smoothing / (self.period + 1.0))\n            return float(\n                alpha * self.reading(self.input_value) + (self.prev_reading() * (1.0 - alpha))\n            )\n",
     "        if self.prev_exists():\n            alpha = float(self.smoothing / (self.period + 1.0))\n            prev = getattr(self, \"_last\", None) if getattr(self, \"_last_i\", None) == index - 1 else None\n            prev = self.prev_reading() if prev is None else prev\n            self._last, self._last_i = float(alpha * self.reading(self.input_value) + (prev * (1.0 - alpha))), index\n            return self._last\n",
     "EMA caches its previous (unrounded) value on the indicator object instead of reading the rounded value stored on the candle: live chains differ from what is persisted"),
    ("c01_sub_indicators_after_parent", "C01", ["C14"], "hexital/core/indicator.py",
     "        indicator._sub_indicator = True\n        indicator._sub_calc_prior = prior_calc\n",
     "        indicator._sub_indicator = True\n        indicator._sub_calc_prior = prior_calc and len(self.sub_indicators) == 0\n",
     "only the first sub-indicator is calculated before its parent; later ones lag one step in live mode"),
    ("c02_sma_window_from_end", "C02", ["C01"], "hexital/indicators/sma.py",
     "        if self.reading_period(self.period, self.input_value):\n            return self.candles_sum(self.period, self.input_value) / self.period\n",
     "        if self.reading_period(self.period, self.input_value):\n            return self.candles_sum(self.period, self.input_value, index=-1 if index == self.period - 1 else index) / self.period\n",
     "the SMA seed sums the LAST `period` candles of the list instead of the window ending at the index (look-ahead in batch)"),
    ("c02_roc_lookahead_wrap", "C02", ["C01"], "hexital/indicators/roc.py",
     "        if self.prev_exists() or self.reading_period(self.period + 1, self.input_value):",
     "        if self.prev_exists() or self.reading_period(self.period, self.input_value):",
     "ROC starts one candle early: index - period is -1 there, i.e. the newest candle"),
    # ---------------- C03
    ("c03_merge_boundary_strict", "C03", ["C12"], "hexital/core/candle_manager.py",
     "            if start_time < candle.timestamp <= end_time and prev_candle.timestamp == end_time:\n                prev_candle.merge(candle)",
     "            if start_time < candle.timestamp < end_time and prev_candle.timestamp == end_time:\n                prev_candle.merge(candle)",
     "a candle exactly on the closing edge is no longer merged into its bucket"),
    ("c03_jump_on_edge_label", "C03", ["C12"], "hexital/core/candle_manager.py",
     "                start_time = round_down_timestamp(candle.timestamp, timeframe_)\n                end_time = start_time + timeframe_\n                candle.timestamp = start_time\n",
     "                start_time = round_down_timestamp(candle.timestamp, timeframe_)\n                end_time = start_time + timeframe_\n                candle.timestamp = end_time\n",
     "after a multi-bucket jump landing exactly on an edge the bucket is labelled one timeframe too late"),
    ("c03_merge_low_not_updated_first", "C03", [], "hexital/core/candle.py",
     "        self.low = min(self.low, candle.low)\n", "        self.low = min(self.low, candle.low) if self.volume else candle.low\n",
     "merging into a zero-volume bucket takes the new low instead of the minimum"),
    # ---------------- C07
    ("c07_find_calc_index_zero", "C07", [], "hexital/core/indicator.py",
     "                or self.name in self.candles[index].sub_indicators\n            ):\n                return index + 1\n",
     "                or self.name in self.candles[index].sub_indicators\n            ):\n                return 0\n",
     "_find_calc_index always restarts from the first candle: values identical, work O(n) per append"),
    ("c07_sub_indicators_full_range", "C07", [], "hexital/core/indicator.py",
     "                if start_index and end_index:\n                    indicator.calculate_index(start_index, end_index)\n                else:\n                    indicator.calculate()\n",
     "                if start_index and end_index:\n                    indicator.calculate_index(start_index, end_index)\n                else:\n                    indicator.calculate_index(0, len(self.candles))\n",
     "the 1.1.2 changelog bug: sub indicators recalculate the whole list on every calculate()"),
    ("c07_stdev_reading_count", "C07", [], "hexital/indicators/stdev.py",
     "        if self.reading(self.input_value) is None:\n            return None\n",
     "        if self.reading(self.input_value) is None or self.reading_count(self.input_value) == 0:\n            return None\n",
     "a whole-list scan (reading_count) in the hot path of STDEV"),
    # ---------------- C08
    ("c08_dict_drops_round_value", "C08", [], "hexital/core/hexital.py",
     "            if INDICATOR_MAP.get(indicator_name):\n                indicator_class = INDICATOR_MAP[indicator_name]\n                return indicator_class(**indicator)",
     "            if INDICATOR_MAP.get(indicator_name):\n                indicator_class = INDICATOR_MAP[indicator_name]\n                indicator.pop(\"round_value\", None) if indicator.get(\"round_value\") == 0 else None\n                return indicator_class(**indicator)",
     "dict construction silently drops round_value=0"),
    ("c08_new_manager_ignores_fill", "C08", [], "hexital/core/hexital.py",
     "                    timeframe_fill=self.timeframe_fill,\n                    candlestick_type=self.candlestick_type,\n                )\n                self._candles[manager.name] = manager",
     "                    timeframe_fill=False,\n                    candlestick_type=self.candlestick_type,\n                )\n                self._candles[manager.name] = manager",
     "timeframe managers created for members ignore the Hexital's timeframe_fill"),
    ("c08_append_skips_late_managers", "C08", ["C19"], "hexital/core/hexital.py",
     "        for candle_manager in self._candles.values():\n            candle_manager.append(candles)\n",
     "        for candle_manager in list(self._candles.values())[:2]:\n            candle_manager.append(candles)\n",
     "append only reaches the first two candle managers"),
    # ---------------- C09
    ("c09_vwap_zero_guard_removed", "C09", [], "hexital/indicators/vwap.py",
     "        if self.reading(f\"{self.name}_data.vol\") == 0:\n            return self.reading(f\"{self.name}_data.pv\")\n", "",
     "VWAP loses its zero-volume guard"),
    ("c09_supertrend_truthy_hl", "C09", [], "hexital/indicators/tsi.py",
     "        if not self.reading_period(2, self.input_value):\n            return None\n",
     "        if not self.reading_period(2, self.input_value) or not self.reading(\"volume\"):\n            return None\n",
     "TSI treats a zero-volume candle as 'no data' and returns None in the middle of the series"),
    ("c09_stoch_guard_sign", "C09", [], "hexital/indicators/stoch.py",
     "            if highest != lowest:\n", "            if highest >= lowest:\n",
     "the zero-range guard of STOCH is wrong again"),
    # ---------------- C11
    ("c11_ha_uses_raw_prev", "C11", ["C08"], "hexital/candlesticks/heikinashi.py",
     "            candle.open = (candles[index - 1].open + candles[index - 1].close) / 2",
     "            prev = candles[index - 1].clean_values or vars(candles[index - 1])\n            candle.open = (prev[\"open\"] + prev[\"close\"]) / 2",
     "HA-open computed from the RAW previous candle instead of the converted one"),
    ("c11_conv_resume_late", "C11", ["C08"], "hexital/core/candlestick_type.py",
     "            if self.name == candles[index].tag:\n                return index + 1\n        return len(candles)",
     "            if self.name == candles[index].tag:\n                return index + 1 if index + 2 >= len(candles) else index + 2\n        return len(candles)",
     "when several candles arrive in one append the first of them is skipped by the conversion resume index"),
    ("c11_merge_keeps_tag", "C11", ["C08"], "hexital/core/candle.py",
     "    def reset_candle(self):\n        self.indicators = {}\n        self.sub_indicators = {}\n        self._tag = None\n",
     "    def reset_candle(self):\n        self.indicators = {}\n        self.sub_indicators = {}\n        self._tag = None if not self.clean_values else self._tag\n",
     "a candle re-converted after clean values were saved keeps its tag: CandleAlreadyTagged / not re-converted"),
    # ---------------- C12
    ("c12_fill_copies_volume", "C12", [], "hexital/core/candle_manager.py",
     "                    low=prev_candle.close,\n                    volume=0,\n", "                    low=prev_candle.close,\n                    volume=0 if index > 1 else prev_candle.volume,\n",
     "the first inserted candle copies the previous volume"),
    ("c12_fill_one_per_gap", "C12", [], "hexital/core/candle_manager.py",
     "                candles.insert(index, fill_candle)\n\n            index += 1\n",
     "                candles.insert(index, fill_candle)\n                index += 1 if len(candles) > 40 else 0\n\n            index += 1\n",
     "in long lists only every second missing candle is filled"),
    ("c12_fill_price_from_next", "C12", [], "hexital/core/candle_manager.py",
     "                fill_candle = Candle(\n                    open=prev_candle.close,\n",
     "                fill_candle = Candle(\n                    open=prev_candle.open if prev_candle.volume == 0 and index > 3 else prev_candle.close,\n",
     "fill candles after another fill candle take the open instead of the close"),
    # ---------------- C13
    ("c13_purge_prefix", "C13", ["C14"], "hexital/core/hexital.py",
     "            if name is None or name == indicator_name:\n                indicator.purge()",
     "            if name is None or indicator_name.startswith(name):\n                indicator.purge()",
     "Hexital.purge selects by prefix"),
    ("c13_find_calc_any_dict", "C13", [], "hexital/core/indicator.py",
     "            self.name not in self.candles[0].indicators\n            and self.name not in self.candles[0].sub_indicators\n",
     "            self.name not in self.candles[0].indicators\n            and not any(k.startswith(self.name) for k in self.candles[0].sub_indicators)\n",
     "resume index treats any helper whose name starts with this indicator's name as 'already calculated'"),
    ("c13_reading_prefers_sub", "C13", ["C20"], "hexital/utils/candles.py",
     "    for key in candle.indicators:\n        if key == name:\n            return candle.indicators[key]\n\n    for key in candle.sub_indicators:\n        if key == name:\n            return candle.sub_indicators[key]\n",
     "    for key in candle.sub_indicators:\n        if key == name:\n            return candle.sub_indicators[key]\n\n    for key in candle.indicators:\n        if key == name:\n            return candle.indicators[key]\n",
     "lookup prefers the helper dictionary over the top-level one for a shared key"),
    # ---------------- C14
    ("c14_recalculate_keeps_helpers", "C14", [], "hexital/core/indicator.py",
     "        \"\"\"Re-calculate this indicator value for all Candles\"\"\"\n        self.purge()\n",
     "        \"\"\"Re-calculate this indicator value for all Candles\"\"\"\n        self._candles.purge(self.name)\n",
     "recalculate purges only the top-level name, helpers keep stale values"),
    ("c14_calc_index_end_exclusive", "C14", ["C20"], "hexital/core/indicator.py",
     "        end_index = end_index if end_index else start_index + 1\n",
     "        end_index = end_index if end_index else min(start_index + 1, len(self.candles) - 1) or 1\n",
     "calculate_index on the newest candle recomputes nothing / the wrong candle"),
    ("c14_remove_leaves_readings", "C14", [], "hexital/core/hexital.py",
     "        self.purge(name)\n        self._indicators.pop(name, None)",
     "        self._indicators.pop(name, None)",
     "remove_indicator no longer purges the readings"),
    # ---------------- C15
    ("c15_trim_inclusive", "C15", [], "hexital/core/candle_manager.py",
     "            and self.candles[0].timestamp < latest - self.candles_lifespan\n",
     "            and self.candles[0].timestamp <= latest - self.candles_lifespan\n",
     "the candle exactly on the window edge is evicted"),
    ("c15_trim_before_collapse", "C15", [], "hexital/core/candle_manager.py",
     "        self.collapse_candles()\n        self.convert_candles()\n        self.trim_candles()\n",
     "        self.trim_candles()\n        self.collapse_candles()\n        self.convert_candles()\n",
     "trimming runs before collapsing"),
    ("c15_sma_absolute_index_cache", "C15", [], "hexital/indicators/wma.py",
     "        if self.prev_exists() or self.reading_period(self.period, self.input_value):",
     "        if (self.prev_exists() and index >= self.period - 1) or self.reading_period(self.period, self.input_value):",
     "WMA consults the absolute index: after a trim shifts indices it restarts its warm-up"),
    # ---------------- C16
    ("c16_rising_uses_negative_index", "C16", [], "hexital/analysis/movement.py",
     "    readings = _get_clean_readings(candles, indicator, length, index_)\n    if not readings:\n        return False\n\n    for reading in readings:\n        if reading >= latest_reading:\n            return False\n    return True",
     "    readings = _get_clean_readings(candles, indicator, length, index_ if index_ > length else index)\n    if not readings:\n        return False\n\n    for reading in readings:\n        if reading >= latest_reading:\n            return False\n    return True",
     "rising() uses the un-normalised index for early candles"),
    ("c16_highest_window_from_len", "C16", [], "hexital/analysis/movement.py",
     "    readings = _get_clean_readings(candles, indicator, length, index_, True)\n\n    max_reading = max(readings, default=False)",
     "    readings = _get_clean_readings(candles, indicator, length, index_ if length < 10 else len(candles) - 1, True)\n\n    max_reading = max(readings, default=False)",
     "highest() with a long window looks at the end of the list"),
    ("c16_value_range_missing_raises", "C16", [], "hexital/analysis/utils.py",
     "    return sum(candles[i].high_low for i in range(start_index, index)) / length",
     "    return sum(candles[i].high_low for i in range(start_index, index)) / min(length, len(candles) - start_index)",
     "pattern averages divide by the number of candles up to the END of the list (depends on later candles)"),
    # ---------------- C18
    ("c18_on_timeframe_local", "C18", [], "hexital/utils/timeframe.py",
     "    epoch = datetime(1970, 1, 1, tzinfo=timestamp.tzinfo)\n    return (timestamp - epoch) % timeframe == timedelta(0)",
     "    return timestamp.timestamp() % timeframe.total_seconds() == 0",
     "on_timeframe goes through the local zone again"),
    ("c18_round_down_days_local", "C18", [], "hexital/utils/timeframe.py",
     "    epoch = datetime(1970, 1, 1, tzinfo=timestamp.tzinfo)\n    return timestamp - ((timestamp - epoch) % timeframe)",
     "    if timeframe >= timedelta(days=1):\n        return datetime.fromtimestamp(\n            timestamp.timestamp() // timeframe.total_seconds() * timeframe.total_seconds()\n        )\n    epoch = datetime(1970, 1, 1, tzinfo=timestamp.tzinfo)\n    return timestamp - ((timestamp - epoch) % timeframe)",
     "day-sized timeframes are rounded through the local zone"),
    ("c18_clean_timestamp_localtime", "C18", [], "hexital/utils/timeframe.py",
     "    return timestamp.replace(microsecond=0)",
     "    return datetime.fromtimestamp(int(timestamp.timestamp())) if timestamp.microsecond else timestamp",
     "clean_timestamp round-trips through the local zone (not monotone on DST days) - only for sub-second stamps, so it stays latent: kept to show what the checks do NOT see"),
    # ---------------- C19
    ("c19_settings_pops", "C19", [], "hexital/core/indicator.py",
     "        for name, value in self.__dict__.items():\n            if name in [\"candles\", \"managed_indicators\", \"sub_indicators\"]:\n                continue\n",
     "        self.__dict__.pop(\"_settings_cache\", None)\n        self._active_index = 0\n        for name, value in self.__dict__.items():\n            if name in [\"candles\", \"managed_indicators\", \"sub_indicators\"]:\n                continue\n",
     "settings resets the private cursor"),
    ("c19_from_dict_consumes", "C19", [], "hexital/core/candle.py",
     "            timestamp=candle.get(\"timestamp\", candle.get(\"Timestamp\")),",
     "            timestamp=candle.pop(\"timestamp\", None) or candle.get(\"Timestamp\"),",
     "from_dict pops the timestamp out of the caller's dict (second timeframe manager then gets none)"),
    ("c19_as_list_moves_cursor", "C19", ["C20"], "hexital/core/indicator.py",
     "        return [reading_by_candle(candle, name if name else self.name) for candle in self.candles]",
     "        self._active_index = max(len(self.candles) - 2, 0)\n        return [reading_by_candle(candle, name if name else self.name) for candle in self.candles]",
     "as_list moves the private cursor"),
    # ---------------- C20
    ("c20_hexital_reading_default_only_first", "C20", [], "hexital/core/hexital.py",
     "        for candle_manager in self._candles.values():\n            reading = reading_by_index(candle_manager.candles, name, index=index)\n            if reading is not None:\n                return reading\n",
     "        for candle_manager in self._candles.values():\n            reading = reading_by_index(candle_manager.candles, name, index=index)\n            if reading:\n                return reading\n",
     "Hexital.reading treats 0/False readings on a timeframe manager as missing"),
    ("c20_reading_count_from_front", "C20", [], "hexital/utils/candles.py",
     "    for count, candle in enumerate(reversed(candles)):\n        if reading_by_candle(candle, name) is None:\n            return count\n",
     "    for count, candle in enumerate(reversed(candles)):\n        if not reading_by_candle(candle, name) and reading_by_candle(candle, name) is not False:\n            return count\n",
     "reading_count stops at a reading of 0"),
    ("c20_nested_falls_through", "C20", [], "hexital/utils/candles.py",
     "            return reading.get(nested_name) if isinstance(reading, dict) else reading\n\n    for key in candle.sub_indicators:",
     "            return reading.get(nested_name, reading) if isinstance(reading, dict) else reading\n\n    for key in candle.sub_indicators:",
     "a dotted lookup of a missing field falls through to the parent dict"),

    # ---------------- batch 2 (added after the first catalogue lost many candidates to the test-suite)
    ("c01_merge_zero_volume_keeps_readings", "C01", ["C02"], "hexital/core/candle.py",
     "        self.close = candle.close\n\n        self.clean_values = {}\n        self.reset_candle()",
     "        self.close = candle.close\n\n        self.clean_values = {}\n        if candle.volume:\n            self.reset_candle()",
     "merging a zero-volume candle into the open bucket does not reset its readings (stale reading)"),
    ("c01_dup_on_edge_manual_merge", "C01", ["C02"], "hexital/core/candle_manager.py",
     "                and prev_candle.timestamp == start_time\n            ):\n                prev_candle.merge(candle)",
     "                and prev_candle.timestamp == start_time\n            ):\n                prev_candle.high = max(prev_candle.high, candle.high)\n                prev_candle.low = min(prev_candle.low, candle.low)\n                prev_candle.volume += candle.volume\n                prev_candle.close = candle.close",
     "a duplicate of a candle sitting exactly on a bucket edge is merged by hand: values right, stale readings kept"),
    ("c02_hl_first_candles_look_at_end", "C02", ["C01"], "hexital/indicators/highest_lowest.py",
     "            \"low\": lowest(self.candles, \"low\", self.period, index),",
     "            \"low\": lowest(self.candles, \"low\", self.period, index if index >= 2 else -1),",
     "HighestLowest evaluates its first two candles at the end of the list (look-ahead in batch)"),
    ("c02_donchian_seed_peeks", "C02", ["C01"], "hexital/indicators/donchian.py",
     "            donchian[\"DCU\"] = movement.highest(self.candles, \"high\", self.period - 1, index)",
     "            donchian[\"DCU\"] = movement.highest(\n                self.candles, \"high\", self.period - 1, index if self.prev_reading(f\"{self.name}.DCU\") is not None else -1\n            )",
     "the first Donchian reading looks at the end of the list"),
    ("c02_counter_repaints_previous", "C02", [], "hexital/indicators/counter.py",
     "        if self.count_value == reading:\n            count += 1\n",
     "        if self.count_value == reading:\n            count += 1\n            if count == 5 and index > 0:\n                self.candles[index - 1].indicators[self.name] = count\n",
     "Counter repaints the previous candle when a streak reaches 5"),
    ("c03_long_jump_label", "C03", ["C12"], "hexital/core/candle_manager.py",
     "            elif next_candle < candle.timestamp:\n                start_time = round_down_timestamp(candle.timestamp, timeframe_)\n                end_time = start_time + timeframe_\n                candle.timestamp = end_time",
     "            elif next_candle < candle.timestamp:\n                start_time = round_down_timestamp(candle.timestamp, timeframe_)\n                end_time = start_time + timeframe_\n                candle.timestamp = end_time if candle.timestamp - prev_candle.timestamp < 40 * timeframe_ else start_time",
     "after an outage longer than 40 buckets the first bucket is labelled with its start"),
    ("c03_dup_on_edge_drops_volume", "C03", [], "hexital/core/candle_manager.py",
     "                and prev_candle.timestamp == start_time\n            ):\n                prev_candle.merge(candle)",
     "                and prev_candle.timestamp == start_time\n            ):\n                volume = prev_candle.volume\n                prev_candle.merge(candle)\n                prev_candle.volume = volume if candle.timestamp == prev_candle.timestamp else prev_candle.volume",
     "a duplicate timestamp of a candle exactly on an edge loses its volume"),
    ("c11_merge_zero_volume_keeps_converted", "C11", ["C08"], "hexital/core/candle.py",
     "        self.recover_clean_values()\n\n        self.high = max(self.high, candle.high)",
     "        if candle.volume:\n            self.recover_clean_values()\n\n        self.high = max(self.high, candle.high)",
     "merging a zero-volume candle into a converted bucket keeps the converted values (converted twice)"),
    ("c11_raw_copies_keep_converted_flat", "C11", ["C08"], "hexital/core/candle_manager.py",
     "            if candle.tag:\n                candle.recover_clean_values()",
     "            if candle.tag and candle.high != candle.low:\n                candle.recover_clean_values()",
     "raw copies for other timeframes are not un-converted when the converted candle is flat"),
    ("c11_ha_first_of_chunk_uses_raw_prev", "C11", ["C08"], "hexital/core/candlestick_type.py",
     "        for index in range(self._find_conv_index(candles), len(candles)):\n            candle = candles[index]\n            candle.save_clean_values()",
     "        start = self._find_conv_index(candles)\n        for index in range(start, len(candles)):\n            candle = candles[index]\n            if index == start and index > 2 and len(candles) - start > 3:\n                candles[index - 1].recover_clean_values()\n            candle.save_clean_values()",
     "when more than three candles arrive in one append the previous candle is un-converted before the chunk is converted"),
    ("c12_fill_stops_after_500", "C12", [], "hexital/core/candle_manager.py",
     "            if index >= len(candles):\n                break",
     "            if index >= len(candles) or index > 500:\n                break",
     "gap filling stops after 500 candles"),
    ("c12_fill_after_zero_volume_real_candle", "C12", [], "hexital/core/candle_manager.py",
     "                    high=prev_candle.close,\n",
     "                    high=prev_candle.close if prev_candle.volume or prev_candle.high == prev_candle.low else prev_candle.high,\n",
     "a fill candle that follows a REAL zero-volume candle copies its high"),
    ("c13_purge_also_timeframe_twin", "C13", ["C14"], "hexital/core/hexital.py",
     "            if name is None or name == indicator_name:\n                indicator.purge()",
     "            if name is None or name == indicator_name or (indicator.timeframe and indicator_name == f\"{name}_{indicator.timeframe}\"):\n                indicator.purge()",
     "purging X also purges X_<timeframe>"),
    ("c13_recalculate_purges_everything", "C13", ["C14"], "hexital/core/hexital.py",
     "        self.purge(name)\n        self.calculate(name)",
     "        self.purge(None)\n        self.calculate(name)",
     "recalculate(name) purges every indicator but recalculates only the named one"),
    ("c14_purge_first_sub_only", "C14", [], "hexital/core/indicator.py",
     "        for indicator in self.sub_indicators.values():\n            names |= indicator._nested_names()",
     "        for indicator in list(self.sub_indicators.values())[:1]:\n            names |= indicator._nested_names()",
     "purge collects the names of the first sub-indicator only"),
    ("c14_calc_index_minus_two", "C14", ["C20"], "hexital/core/indicator.py",
     "        if start_index < 0:\n            start_index += len(self.candles)",
     "        if start_index < 0:\n            start_index += len(self.candles) if start_index == -1 else len(self.candles) - 1",
     "negative indices other than -1 are normalised one candle too early"),
    ("c15_trim_one_per_append", "C15", [], "hexital/core/candle_manager.py",
     "        while (\n            self.candles[0].timestamp\n            and self.candles[0].timestamp < latest - self.candles_lifespan\n        ):\n            self.candles.pop(0)",
     "        if (\n            self.candles[0].timestamp\n            and self.candles[0].timestamp < latest - self.candles_lifespan\n        ):\n            self.candles.pop(0)",
     "at most one candle is evicted per append"),
    ("c15_ema_uses_absolute_seed_index", "C15", [], "hexital/indicators/ema.py",
     "        if self.reading_period(self.period, self.input_value):\n            return float(self.candles_sum(self.period, self.input_value) / self.period)",
     "        if self.reading_period(self.period, self.input_value) or (index == 1 and len(self.candles) > 2 * self.period):\n            return float(self.candles_sum(self.period, self.input_value) / self.period)",
     "EMA re-seeds at index 1 of a long list (only reachable after a trim shifted the indices)"),
    ("c16_lowestbar_unclamped_for_length_7", "C16", [], "hexital/analysis/movement.py",
     "    low = None\n    distance = 0\n\n    for idx, index in enumerate(range(index_, max(index_ - length, -1), -1)):",
     "    low = None\n    distance = 0\n\n    for idx, index in enumerate(range(index_, max(index_ - length, -1) if length != 7 else index_ - length, -1)):",
     "lowestbar with length 7 walks before the first candle"),
    ("c16_hammer_lookback_from_end", "C16", [], "hexital/analysis/patterns.py",
     "    return any(_hammer(i) for i in range(max(index - lookback + 1, 0), index + 1))",
     "    return any(_hammer(i) for i in range(max(index - lookback + 1, 0), index + 1 if lookback < 12 else len(candles)))",
     "hammer with a lookback >= 12 scans to the end of the list"),
]


# Mutants that turned out to be EQUIVALENT on the property's domain (analysed after the sensitivity
# self-test missed them); they are not generated, the reasons are kept in mutants/equivalent.json.
EQUIVALENT = {
    "c11_merge_keeps_tag": "reset_candle() is only ever called with empty clean_values or on an untagged candle, so the kept tag is always None",
    "c13_find_calc_any_dict": "when the first test is skipped the scan falls through to 'return 0' anyway",
    "c13_reading_prefers_sub": "after the helper-name fixes no key is shared between indicators and sub_indicators for member sets with distinct top-level names; only a fullname_override that deliberately equals another member's internal helper name could observe the lookup order (outside what C13 samples, noted in DESIGN.md)",
    "c14_recalculate_keeps_helpers": "stale helper readings equal the recomputed ones as long as the candles did not change, so recalculate still reproduces the readings",
    "c15_sma_absolute_index_cache": "only differs when index < period-1 after a trim, i.e. when the look-back is NOT retained, which the property's precondition excludes",
    "c16_rising_uses_negative_index": "for index <= length the window is clamped to the start of the list, which the negative slice bound reproduces exactly",
    "c14_calc_index_minus_two": "recomputing ANY already computed index reproduces the state, so addressing a neighbouring candle is unobservable once the cursor is put back on the newest candle (7bc2d93)",
    "c11_raw_copies_keep_converted_flat": "a converted candle is only flat when the raw candle is flat at the previous HA level, in which case the converted values EQUAL the raw ones: skipping the un-conversion changes nothing (and since 5779f26 the tag is reset for every copy anyway)",
    "c16_value_range_missing_raises": "patterns only evaluate at index >= 10 where len(candles) - start_index >= length, so the divisor is unchanged",
}
# Mutants kept although NO check is expected to see them (they mark a documented blind spot).
EXPECTED_MISSED = {
    "c18_clean_timestamp_localtime": "only affects timestamps with microseconds; every property quantifies over second-resolution timestamps",
}


def run(cmd, **kw):
    return subprocess.run(cmd, shell=isinstance(cmd, str), capture_output=True, text=True, **kw)


def main():
    only = set(sys.argv[1:])
    os.makedirs(OUT, exist_ok=True)
    wt = tempfile.mkdtemp(prefix="hexmutgen.", dir="/tmp")
    os.rmdir(wt)
    run(["git", "-C", "/repo", "worktree", "add", "-q", "--detach", wt, "HEAD"], check=True)
    head = run(["git", "-C", "/repo", "rev-parse", "--short", "HEAD"]).stdout.strip()
    kept = dropped = 0
    try:
        for name, prop, also, path, old, new, what in M:
            if only and name not in only:
                continue
            if name in EQUIVALENT:
                for ext in (".diff", ".json"):
                    try:
                        os.remove(os.path.join(OUT, name + ext))
                    except FileNotFoundError:
                        pass
                continue
            run(["git", "-C", wt, "checkout", "--", "."])
            fp = os.path.join(wt, path)
            src = open(fp).read()
            if src.count(old) != 1:
                print(f"{name}: anchor found {src.count(old)} times - SKIPPED")
                dropped += 1
                continue
            open(fp, "w").write(src.replace(old, new))
            diff = run(["git", "-C", wt, "diff"]).stdout
            t = run(f"cd {wt} && PYTHONPATH={wt} /venv/bin/python -m pytest -q -p no:cacheprovider -x 2>&1 | tail -2")
            ok = " passed" in t.stdout and "failed" not in t.stdout and "error" not in t.stdout.lower()
            if not ok:
                print(f"{name}: killed by the existing test-suite - not kept ({t.stdout.strip()[-120:]})")
                for ext in (".diff", ".json"):
                    try:
                        os.remove(os.path.join(OUT, name + ext))
                    except FileNotFoundError:
                        pass
                dropped += 1
                continue
            open(os.path.join(OUT, name + ".diff"), "w").write(diff)
            json.dump({"name": name, "property": prop, "expect_caught_by": [prop], "may_also_trip": also,
                       "expected_missed": EXPECTED_MISSED.get(name),
                       "patch": name + ".diff", "what": what, "made_against_repo_commit": head,
                       "test_suite_with_mutant": "325 passed"},
                      open(os.path.join(OUT, name + ".json"), "w"), indent=1)
            print(f"{name}: kept")
            kept += 1
    finally:
        run(["git", "-C", "/repo", "worktree", "remove", "--force", wt])
    json.dump(EQUIVALENT, open(os.path.join(OUT, "equivalent.json"), "w"), indent=1)
    print(f"kept {kept}, dropped {dropped}")


if __name__ == "__main__":
    main()
