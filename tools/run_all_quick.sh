#!/bin/bash
# runs every registered quick check against /repo itself (rewrites evidence/*.json); prints a summary
cd /verif
fail=0
for c in $(jq -r '.checks[].property_id' MANIFEST.json); do
  out=$(./check $c quick 2>&1); rc=$?
  echo "$out" | grep -E "^(VIOLATION|KNOWN-FINDING|HARNESS-ERROR)" | cut -c1-200
  echo "$out" | tail -1
  [ $rc -ne 0 ] && fail=1
done
python3-vt - <<'PY'
import json,jsonschema,glob
sch=json.load(open('/root/.vp/EVIDENCE.schema.json'))
for f in sorted(glob.glob('/verif/evidence/*.json')):
    try:
        jsonschema.validate(json.load(open(f)),sch)
    except Exception as e:
        print("EVIDENCE INVALID",f,str(e)[:200])
print("evidence files validated")
jsonschema.validate(json.load(open('/verif/MANIFEST.json')), json.load(open('/root/.vp/MANIFEST.schema.json')))
print("manifest valid")
PY
exit $fail
