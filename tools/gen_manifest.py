#!/usr/bin/env python3
"""Regenerates /verif/MANIFEST.json from the table below (kept in one place so that the manifest is
always valid and in step with the checks that exist)."""
import json
import os

VERIF = os.path.dirname(os.path.dirname(os.path.abspath(__file__)))
TECH = "deterministic simulation with fault injection"

CHECKS = {
    "C01": ("exploration",
            "seeded simulated feed (chunking, preload, calculate-before-append, drops, halts, duplicate timestamps, bursts, "
            "off-grid timestamps) drives one real indicator per run (all 26 classes + Amorph over all 18 pattern/movement "
            "functions; base or collapsing timeframe; fill on/off); at check points candles, readings and helper readings "
            "must equal a batch twin exactly. Sampling of schedules, not proof.",
            "trusts the batch twin as the canonical schedule (the property's own right-hand side); exceptions raised on both "
            "sides are discarded (totality is C09)",
            TECH + ": seeded schedule/fault search, twin oracle (batch schedule), ddmin + replay"),
    "C02": ("exploration",
            "history check under simulation: after every operation the closed candles (all without a timeframe, all but the "
            "open bucket with one) of a real indicator or multi-timeframe Hexital are compared with a ledger of all earlier "
            "observations; at the end with batch twins over the whole stream and over sampled prefixes (look-ahead shows up "
            "only in those).",
            "closedness defined as in the property; full-prefix recheck every 10th op on long runs (a repaint is found at most "
            "9 ops late)",
            TECH + ": seeded schedule/fault search, ledger (history) oracle + prefix/batch twins, ddmin + replay"),
    "C03": ("exploration",
            "the world loop (exchange, feed faults drop/halt/dup/burst/off-grid, chunked delivery, repeated collapse passes) is "
            "planned into a trace and executed on the real CandleManager via four routes; after every operation the collapsed "
            "list must equal an integer-arithmetic reference resampler over everything delivered.",
            "trusts the 20-line reference resampler and the stated stream domain (second-resolution, non-decreasing timestamps); "
            "TZ pinned to UTC (zone dependence is C18)",
            TECH + ": seeded schedule/fault search, reference-model oracle, ddmin + replay"),
    "C07": ("exploration",
            "bounded liveness in simulated steps: histories of geometrically growing length are built through the faulty feed, "
            "then single appends are measured with a deterministic interpreter-event counter (sys.monitoring LINE events in "
            "indicator/analysis/utils code and _calculate_reading invocations); work at 8x (16x) history must stay within a "
            "fixed bound of work at 1x.",
            "work is measured in interpreter line events of the files the property names (candle_manager re-collapse is "
            "O(n) by construction and excluded); a ladder of four (five) history lengths stands for 'all n'",
            TECH + ": step-counting simulator clock over seeded histories (liveness within a bounded number of steps)"),
    "C08": ("exploration",
            "a real Hexital (members as objects / dicts / dicts from .settings, mixed and repeated timeframes, Hexital-level "
            "timeframe / fill / lifespan / Heikin-Ashi, candles at construction and/or appended under a faulty schedule, "
            "restart from settings) is compared member by member with solo twins of the same effective configuration fed the "
            "same arrivals, exactly; base candles keep their OHLCV.",
            "effective configuration = the inheritance the test suite documents (member's own timeframe, else the Hexital's; "
            "fill/lifespan/candlestick type from the Hexital); member sets have distinct names and no helper-name collisions "
            "(those are C13)",
            TECH + ": seeded schedule/fault search incl. restart-from-settings, solo-twin oracle, ddmin + replay"),
    "C09": ("exploration",
            "fault-duration search: stalls (flat, optionally zero-volume) of 1-400 candles after activity, one-sided runs from "
            "the first candle and later, zero-volume sessions, halts with library-inserted fill candles, price scales 1e-2..1e6, "
            "all under chunked delivery, on every indicator class incl. chained inputs; after every operation: no exception, "
            "no step-budget overrun, every stored value None/bool/finite, no gap after an output field has produced a value. "
            "Reach probes show the zero-divisor situations were actually produced.",
            "Supertrend long/short are exempt from the no-gap rule (mutually exclusive by definition); only well-formed streams",
            TECH + ": fault placement/duration search with reach probes, totality invariants checked per op, ddmin + replay"),
    "C11": ("exploration",
            "a real Indicator/Hexital/CandleManager with candlestick_type=HA is fed from 0/1/2/k preloaded candles under faulty "
            "chunked schedules (with/without a collapsing timeframe); after every op the candles must equal the Heikin-Ashi "
            "recurrence applied to the reference-resampled raw stream (1e-9 rel.), carry the tag once with raw OHLCV recoverable, "
            "and readings must equal a plain twin computed on the converted values.",
            "gap filling stays off (not in the property's quantifier); trusts the 15-line HA reference",
            TECH + ": seeded schedule/fault search, reference-model + twin oracles, ddmin + replay"),
    "C12": ("exploration",
            "a real CandleManager(timeframe_fill=True) by four routes under drops, multi-bucket halts, several gaps, gaps that "
            "open at the end of one append and close in the next, duplicates, bursts, re-collapse; after every op: contiguous "
            "timestamps, equality with reference resample+fill, real buckets equal a no-fill real twin; the fill loop runs under "
            "a step budget.",
            "trusts the reference resampler + 15-line fill model; runs bounded to 1500 buckets of span",
            TECH + ": seeded schedule/fault search, reference-model + twin oracles, step-budget hang detection, ddmin + replay"),
    "C13": ("exploration",
            "Hexitals whose member names are chosen adversarially (substring/prefix pairs, composites whose helper has a default "
            "name that is also a legal top-level name, with a different input) are driven through appends and operator actions "
            "(purge/recalculate/remove/calculate aimed at member a) in both registration orders; member b must equal its solo "
            "twin and be bit-identical across each action.",
            "pairs never have an input dependency and always distinct top-level names, as the property requires",
            TECH + ": seeded operator-program search in both registration orders, solo-twin oracle, ddmin + replay"),
    "C14": ("exploration",
            "random maintenance programs (append, calculate, purge, recalculate, calculate_index(+/-i) guarded by the property's "
            "precondition, add/remove indicator, warm restart) on real indicators and Hexitals; per operation idempotence / "
            "reproduction / exact key-ownership of purge (ownership taken from a solo reference run), and after a final "
            "calculate() equality with the batch twin.",
            "calculate_index is only issued where every reading up to the index is present (the property's precondition); "
            "same-named indicators with other parameters are never re-added without purge",
            TECH + ": seeded operator-program search with guarded ops, per-op invariants + batch-twin convergence, ddmin + replay"),
    "C15": ("exploration",
            "a real indicator/Hexital with candles_lifespan next to an untrimmed real twin; the window is made tight by simulated "
            "outages of (lifespan - k*interval), drops and bursts. After every append the retained timestamps must be exactly "
            "the reference window; readings must equal the twin's while the property's look-back precondition (evaluated "
            "before each append from the twin and a per-class look-back table) has held.",
            "second clause checked only while the precondition guard is armed (share reported); look-back table: 1 for purely "
            "recursive indicators, period(+2 margin) for windowed ones",
            TECH + ": fault-sized eviction search, reference window + untrimmed-twin oracle with guarded precondition, ddmin + replay"),
    "C16": ("exploration",
            "one pattern/movement function per run is called directly on the growing candle list of a real Hexital with live "
            "helper indicators (warm-up, dict fields, missing names) and through Amorph (object and dict form): the answer "
            "recorded when candle t was newest (default, -1, t) must equal f(index=i), f(index=i-len) and f(list truncated after "
            "i) at later times, never raising; Amorph column equals that ledger live and in batch.",
            "helper-indicator exceptions on degenerate streams are discarded (C09); plain dict-valued names are not passed",
            TECH + ": two-observation-time history check over seeded growth schedules, ddmin + replay"),
    "C18": ("fault_enumeration",
            "environment fault: every sampled trace (feed faults, chunking, optional TZ switches between operations, streams "
            "placed on 2023 DST transition days and ordinary days) is executed under UTC and under each of 10 panel zones "
            "(half-hour, 45-minute, DST, POSIX-string zones) via tzset(); collapsed candles and readings must be identical and "
            "no zone may raise.",
            "zone panel is fixed and enumerated per trace; traces are sampled; relies on glibc tzset and /usr/share/zoneinfo",
            TECH + ": TZ/DST environment fault enumerated over a zone panel per sampled trace, UTC-twin oracle"),
    "C19": ("exploration",
            "observer calls (str, repr, name, settings, has_reading, reading, prev_reading, as_list, reading_count, "
            "reading_period, candles_sum and the Hexital equivalents) are interleaved at random points with appends in every "
            "input encoding on real indicators / multi-timeframe Hexitals: deep object-graph snapshot identical across each "
            "observer call, final state equals a probe-free twin, caller-owned containers unchanged, every encoding and every "
            "timeframe manager receives the same candles.",
            "snapshot covers instance __dict__ (public and private), candles, reading dicts, helper indicators",
            TECH + ": seeded interleaving of observer and feed events, snapshot-invariant + probe-free twin oracle, ddmin + replay"),
    "C20": ("exploration",
            "states reached by maintenance programs, trims, merges into the open bucket and multi-timeframe Hexitals; after every "
            "operation all access paths (Indicator.reading +/- index, as_list, read_candle, direct dict lookup, Hexital.reading / "
            "reading_as_list / prev_reading, has_reading, reading_count) are compared with each other for sampled names and "
            "indices, including indicators that legitimately read 0/False.",
            "default-position accessors are compared with the newest candle (README: 'latest reading')",
            TECH + ": seeded operator-program search for hidden-cursor states, cross-accessor agreement invariant, ddmin + replay"),
}

# dimensions added after the design was written (rounds 7-9 of the seeded-change exercise), appended to the level text
EXTRA = {
    "C01": "Since rounds 7-9: Heikin-Ashi as a parameter choice, timezone-aware streams, neighbour objects fed first in the same process, the process under a zone with offset changes, the live subject under a live simulated clock and the batch twin long after.",
    "C03": "Since rounds 7-9: sibling members on equivalent spellings / day-shifted spans, two collapsing levels, lifespans (window of the reference), neighbour managers in the same process (other timeframes, same instants under another UTC offset), process zones with offset changes.",
    "C07": "A second meter (transient memory per append via tracemalloc, minimum over the measured appends) sees work done below the interpreter; the counter counts function entries, jumps and branches (LINE events are not bit-stable); without a timeframe the candle manager itself is measured too; probes also as bare Candle objects / same-second candles, with a never-evicting lifespan and aware timestamps.",
    "C18": "The wall clock is simulated (live feed clock per arrival, converted with the zone under test); neighbour managers on the stream moved by the size of an offset change; timestamps also as instances of a datetime subclass.",
    "C19": "Since rounds 7-9: timezone-aware streams with both ISO spellings of UTC and an offset oracle, Hexital-level timeframes with a member-based reference, read-only calls on freshly built objects before registration.",
}

NA = [
    ("C04", "pure function of (input series, period): no schedule, observation time, environment or fault enters the statement; deciding it needs an independent formula reference on generated inputs (property-based testing), not simulation. Live-vs-batch agreement of the same values is C01."),
    ("C05", "pure function of (candles, parameters); same reason as C04."),
    ("C06", "pure function of (candles, parameters); same reason as C04."),
    ("C10", "algebraic relations between output fields of one evaluation on one input; nothing a schedule or fault can create or hide that the input alone cannot."),
    ("C17", "stateless predicates of (candles, index, arguments) and per-candle geometry; the witnesses the property asks for are constructed inputs, not schedules or faults."),
]


def main():
    have = sorted(f[:-3].upper() for f in os.listdir(os.path.join(VERIF, "hexsim", "props"))
                  if f.startswith("c") and f.endswith(".py"))
    online_file = os.path.join(VERIF, "tools", "online.txt")
    online = open(online_file).read().split() if os.path.exists(online_file) else have
    checks = []
    for pid in sorted(CHECKS):
        if pid not in have or pid not in online:
            continue
        level, text, note, tech = CHECKS[pid]
        checks.append({
            "property_id": pid,
            "quick_cmd": f"./check {pid} quick",
            "thorough_cmd": f"./check {pid} thorough",
            "evidence_file": f"evidence/{pid}.json",
            "replay_cmd_template": "./check replay {path}",
            "engine": "hexsim",
            "level_claimed": {"category": level, "text": (text + " " + EXTRA.get(pid, "")).strip(),
                              "design_ref": f"DESIGN.md section 4 and section 14, {pid}"},
            "level_note": note,
            "technique": tech,
        })
    claimed = [c["property_id"] for c in checks]
    na = [{"property_id": p, "reason": r} for p, r in NA]
    for pid in sorted(CHECKS):
        if pid not in claimed:
            na.append({"property_id": pid, "reason": "claimed in DESIGN.md; its check is not registered yet (under construction) - not a not-applicable verdict"})
    manifest = {
        "version": 1,
        "setup_cmd": "./check setup",
        "hooks": {
            "guard": "HEXITAL_VERIF",
            "enable": "no hooks in /repo: every seam is the public API of hexital, the process environment (TZ, PYTHONHASHSEED) or, from outside and in the check process only, the datetime / time names bound in hexital's modules (hexsim/simclock.py rebinds them to a simulated clock); checks import /repo's working tree directly (PYTHONPATH=/repo)",
            "baseline_off_cmd": "cd /repo && /venv/bin/python -m pytest -ra -q -p no:cacheprovider --timeout=900 --continue-on-collection-errors",
            "source_commits": [],
            "add_only": True,
        },
        "engines": [{
            "name": "hexsim", "path": "hexsim/", "serves_properties": claimed,
            "kind_free_text": "deterministic simulation: a seeded discrete-event world (exchange, feed with fault injection, operator, observer, process environment: time zone, simulated wall clock, string-hash seed, neighbour objects in the same process) is planned into an explicit JSON trace and executed on real hexital objects next to twins and small reference models; step budget via sys.monitoring; every chunk of runs and every shrink candidate in a forked child of a pristine process; ddmin shrinking; replay files (one trace, or a sequence of traces when the violation needs the history of the process); fork pool with index-ordered merge; a second leg under another hash seed",
        }],
        "checks": checks,
        "not_applicable": na,
        "notes": "See DESIGN.md (sections 14-16 for what was built after the design, the findings and which checks catch which seeded changes). Exit codes: 0 held / 1 VIOLATION / 2 harness error. known_findings.json lists fixed and known findings; reproducers under known/ are replayed at the start of each check.",
    }
    with open(os.path.join(VERIF, "MANIFEST.json"), "w") as fh:
        json.dump(manifest, fh, indent=1)
    print("manifest: claimed", claimed)


if __name__ == "__main__":
    main()
