#!/bin/bash
# every registered thorough check (VERIF_BUDGET_S overrides the 420 s default); summary lines only
cd "$(dirname "$0")/.."
for c in $(jq -r '.checks[].property_id' MANIFEST.json); do
  out=$(VERIF_SEED=${VERIF_SEED:-0} ./check $c thorough 2>&1); rc=$?
  echo "$out" | grep -E "^(VIOLATION|violation|HARNESS-ERROR)" | cut -c1-300
  echo "$out" | tail -1
done
echo THOROUGH-DONE
