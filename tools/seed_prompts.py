#!/usr/bin/env python3
"""Writes the prompts for a round of seeding sub-agents (one per claimed property) and creates their
scratch worktrees of /repo HEAD under /tmp.  The prompt contains ONLY the property text, the worktree
path and the names of the changes already taken - nothing else from /verif.
usage: tools/seed_prompts.py <round-number> [angle-file]     -> /tmp/seed_out<round>/<ID>/prompt.txt"""
import glob, json, os, subprocess, sys

rnd = sys.argv[1]
angle = open(sys.argv[2]).read().strip() if len(sys.argv) > 2 else ""
props = {json.loads(l)["id"]: json.loads(l) for l in open("/verif/properties.jsonl")}
taken = {}
for f in glob.glob("/verif/seeded/*/meta.json"):
    m = json.load(open(f))
    taken.setdefault(m["property"], []).append(m["name"].split("-", 1)[1].replace("-", " "))
BASE = '''You are helping test a verification effort for the open-source Python library Hexital (an incremental technical-analysis library: candle manager with timeframe collapsing plus ~27 streaming indicators and pattern detectors). Your job is to act as a "fault seeder": make ONE realistic, subtle source change to the library that BREAKS the semantic property below while the code still imports and the library's existing test-suite still passes. Independent machinery (which you cannot see and must not look for) will later be run against your change to see whether it notices. {n_taken} earlier seeders have already worked on this property (their ideas are listed below) and almost all were noticed, so you need a genuinely NEW angle - and it has to be one that a careful reviewer would still accept as a violation of the property AS STATED.

WORKING COPY: you have your own scratch git worktree of the library at {wt} . Work ONLY there. Do NOT read, list or touch /repo or /verif (nothing from there may influence you), and do not commit anything.

THE PROPERTY ({pid}: {title})
Statement: {statement}
Quantifier: {qtext}
Code the property is anchored in: {files}

HOW TO FIND A NEW ANGLE: {angle}

WHAT TO PRODUCE
1. A change to files under {wt}/hexital/ (a few lines; it must look like something a real maintainer could write). It must break the property above under SPECIFIC circumstances only, and stay strictly INSIDE the property's quantifier (periods >= 2, well-formed candles with non-decreasing second-resolution timestamps, legal documented API use, indicators registered after the indicators they take as input). Not wanted: changes that ordinary use exposes at once, changes that only matter for input outside the quantifier, changes whose only effect is a last-bit floating point difference or that need an exact float coincidence, changes that only cost C-level time without executing more Python code or allocating memory, thresholds in the thousands of candles or more, and anything that depends on user-supplied callables. Do not add new files to the library and do not change the tests.
2. The existing tests must still ALL pass with your change:  cd {wt} && PYTHONPATH={wt} /venv/bin/python -m pytest -q -p no:cacheprovider   (325 tests; check that `PYTHONPATH={wt} /venv/bin/python -c "import hexital; print(hexital.__file__)"` prints a path under {wt}).
3. A demonstration program {out}/demo.py that uses only the public API of hexital, runs with  PYTHONPATH={wt} /venv/bin/python {out}/demo.py , exits with status 1 (printing what went wrong) WITH your change and exits 0 WITHOUT it (verify both, e.g. `git -C {wt} diff > /tmp/p{rnd}_{pid}.diff; git -C {wt} checkout -- .; run; git -C {wt} apply /tmp/p{rnd}_{pid}.diff; run`). The demo must demonstrate a violation of the property as stated (not of something else), and must give the same result every time it is run.
4. Save the change as a unified diff:  git -C {wt} diff > {out}/patch.diff  (leave the change applied in the worktree as well).
5. Write {out}/notes.md: which file/function you changed and why it looks plausible, what you targeted and why you think it is new, the exact conditions needed for the violation to manifest, and the commands you ran with their outcomes. If while reading you notice something in the UNCHANGED library that already violates the property, add a section "Unrelated finding" describing it with a minimal example.

ALREADY TAKEN by the earlier seeders (choose a different mechanism in a different function from all of them): {taken}.

CONSTRAINTS: no network; Python is /venv/bin/python (3.12); do not install anything. Keep the change small and realistic. If an idea makes an existing test fail, pick another. Finish by replying with a short summary (what you changed, the conditions that trigger it, test-suite and demo results).'''
DEFAULT_ANGLE = ("read the anchored files completely, list the separate clauses of the property statement and for each the entry "
                 "points, classes, option combinations, stream shapes and call sequences that reach it; cross off what the earlier "
                 "seeders used and pick something none of them touched.")
n = 0
for pid in sorted(taken):
    p = props[pid]
    wt, out = f"/tmp/seed_{pid}", f"/tmp/seed_out{rnd}/{pid}"
    if not os.path.isdir(wt):
        subprocess.run(["git", "-C", "/repo", "worktree", "add", "-q", "--detach", wt, "HEAD"], check=True)
    os.makedirs(out, exist_ok=True)
    txt = BASE.format(wt=wt, out=out, pid=pid, rnd=rnd, title=p["title"], statement=p["statement"],
                      qtext=p["quantifier"]["text"], files=", ".join(p["anchors"]["files"]),
                      taken="; ".join(sorted(taken[pid])), n_taken=len(taken[pid]), angle=angle or DEFAULT_ANGLE)
    open(os.path.join(out, "prompt.txt"), "w").write(txt)
    n += 1
print(n, "prompts under", f"/tmp/seed_out{rnd}")
