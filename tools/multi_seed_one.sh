#!/bin/bash
# One check under many base seeds.  usage: tools/multi_seed_one.sh <ID> <seed> [seed...]
cd "$(dirname "$0")/.."
c=$1; shift; bad=0
for seed in "$@"; do
  out=$(VERIF_SEED=$seed timeout 1500 ./check $c quick 2>&1); rc=$?
  echo "$out" | grep -E "^(VIOLATION|HARNESS-ERROR|violation:)" | cut -c1-300
  echo "seed=$seed rc=$rc $(echo "$out" | tail -1)"
  [ $rc -ne 0 ] && bad=1
done
echo "MULTI-SEED-DONE bad=$bad"; exit $bad
